"""C15 -- point-in-polygon answers agree with the even-odd rule (structural clauses)."""
import ast
import itertools

from ..core import AnalysisError
from ..cfront import strip, text
from .. import cq, pq, cnorm, ckern, xlayer, pyxread
from ..ceval import CEval, find_all, loop_parts, body_stmts, loop_var, stores_to
from ..formula import Canon, Ratio, Undecided, show, num, ExprBuilder
from ..pyfront import Mod, dotted, const_value
from .c03 import rank_orders, _bool

EXPLANATION = (
    "The edge step of c_inside is evaluated for every weak ordering of the point's ordinate against the two edge "
    "ordinates (13 orderings, the values are only compared) combined with the three remaining predicates (point left "
    "of the edge's right end, edge not horizontal beyond the tolerance, point left of the intersection / edge "
    "vertical): the parity flag must toggle exactly when min(y1,y2) < y <= max(y1,y2) -- the half-open rule that "
    "counts a ray through a vertex once -- and the abscissa test holds; the intersection abscissa equals "
    "x1 + (y-y1)(x2-x1)/(y2-y1).  Edges are visited as consecutive vertex pairs closed through ivert % nvertices; "
    "points outside the bounding box are skipped, so the answer vector must arrive zeroed on both wrapper paths; the "
    "box is computed from the polygon buffer that is passed; cells_inside_polygon tests the centre of every cell "
    "(arange(nrows*ncols)) and returns the flagged cells.  Agreement with the even-odd rule for arbitrary polygons "
    "(the crossing count itself) is not computed.")


def run(rep):
    rep.rule("R15.a", "edge step toggles the flag exactly when ymin < y <= ymax (half-open) and the abscissa test holds, for every ordering; intersection abscissa formula")
    rep.rule("R15.b", "edges = consecutive vertices closed by ivert % nvertices; bounding-box skip => answer vector zeroed on both wrapper paths; box from the passed polygon")
    rep.rule("R15.c", "cells_inside_polygon tests the centres of all nrows*ncols cells and returns the flagged ones")
    K = ckern.analyze(rep.repo)
    if K["fns"].get("c_inside") is None:
        raise AnalysisError("gis/c_points_inside_polygon.c: c_inside not found")
    fn = ckern.normalised(K, "c_inside", rep.repo)
    file = fn["file"]
    top = body_stmts(fn["body"])
    outer = [s for s in top if s.get("kind") == "ForStmt" and "inside" in cnorm.writes(s)[1]]
    if len(outer) != 1:
        raise AnalysisError(f"{file}: point loop not found")
    outer = outer[0]
    # the counts the kernel receives are the extents of its loops: a change of `nvertices` / `npoints` inside the kernel drops a vertex (and
    # the two edges that meet there) or a point, unless it only skips an exact duplicate of the first vertex at the end of the list
    wr_ = cnorm.writes(fn["body"])[0]
    for cnt_ in ("nvertices", "npoints"):
        if cnt_ not in wr_:
            rep.proved("R15.b", file, "c_inside", f"`{cnt_}` is used as received (never assigned in the kernel)", line=fn["line"])
            continue
        okdup = False
        try:
            pce = cq.evaluate(cq.preceding(top, outer))
            ch = [f_ for f_ in pce.finals if f_[2] == "end" and cnt_ in f_[0] and not cq.same_expr(f_[0][cnt_], cnt_)]
            okdup = cnt_ == "nvertices" and bool(ch) and all(cq.same_expr(f_[0][cnt_], "nvertices - 1") and
                                                              cq.holds(f_[1], "polygon[0] == polygon[2*nvertices-2]", True) and
                                                              cq.holds(f_[1], "polygon[1] == polygon[2*nvertices-1]", True) for f_ in ch)
        except Undecided:
            okdup = False
        rep.check(okdup, "R15.b", file, "c_inside", f"`{cnt_}` is used as received, or reduced by one only when the last vertex repeats the first in BOTH coordinates",
                  f"`{cnt_}` is assigned inside the kernel under a condition that does not establish that: a vertex list whose last vertex merely shares one coordinate with "
                  "the first loses that vertex", line=fn["line"])
    olr = cq.loop_range(outer, cq.preceding(top, outer))
    pv = olr["var"] if olr else loop_var(outer)
    ostm = body_stmts(loop_parts(outer)[3])
    el = [s for s in ostm if s.get("kind") == "ForStmt"]
    if len(el) != 1:
        raise AnalysisError(f"{file}: edge loop not found")
    el = el[0]
    elr = cq.loop_range(el, cq.preceding(ostm, el))
    ev = elr["var"] if elr else loop_var(el)
    estm = body_stmts(loop_parts(el)[3])
    rep.unit(f"{file}: c_inside (normalised: point loop, edge loop); gis/gutils.py: points_inside_polygon; gis/grid.py: cells_inside_polygon; c_hydrodiy_gis.pyx: points_inside_polygon")
    rep.check(cq.range_is(olr, "0", "npoints-1"), "R15.b", file, "c_inside", "every point is tested once", "", line=outer.get("_line"))
    PX, PY = f"points[2*{pv}]", f"points[2*{pv}+1]"
    # state carried by the edge loop: the previous vertex (two scalars assigned from the polygon at the end of the body)
    def only_index(c):
        return None if set(cq.cond_atoms(c, True).d.symbols() if isinstance(cq.cond_atoms(c, True), cq.Atom) else ["?"]) <= {ev, "nvertices"} else False
    plain = CEval(only_index)
    plain.summarise_loops = True
    plain.run(estm, {})
    endenv = [f_ for f_ in plain.finals if f_[2] == "end"]
    if not endenv:
        raise AnalysisError(f"{file}: edge loop body has no normal end")
    cnx = Canon()
    p1x = p1y = None
    E_alts = []          # (path conditions on the edge counter, index of the second vertex's abscissa)
    for env_, conds_, _how in endenv:
        carried = {k_: v for k_, v in env_.items() if "[" not in k_ and v[0] == 'call' and v[1] == 'A:polygon'}
        for a_, va in carried.items():
            for b_, vb in carried.items():
                if a_ != b_ and cnx.ratio(vb[2][0]) - cnx.ratio(va[2][0]) == Ratio.const(1):
                    if p1x not in (None, a_) or p1y not in (None, b_):
                        raise AnalysisError(f"{file}: previous-vertex variables of the edge loop differ between paths")
                    p1x, p1y = a_, b_
                    E_alts.append((conds_, va[2][0]))
    if p1x is None or len(E_alts) != len(endenv):
        raise AnalysisError(f"{file}: previous-vertex variables of the edge loop not recognised")
    E = E_alts[0][1]
    # every way out of an iteration advances the previous vertex: a `continue` placed before the update makes the next edge start
    # from a stale vertex (the corner after a skipped edge is cut)
    try:
        full = cq.evaluate(estm)
        stale = [f_ for f_ in full.finals if f_[2] == "ContinueStmt" and not (p1x in f_[0] and p1y in f_[0] and f_[0][p1x][0] == 'call' and f_[0][p1x][1] == 'A:polygon')]
        rep.check(not stale, "R15.b", file, "c_inside", "every path through the edge step (including `continue`) advances the previous vertex to the edge's second vertex",
                  f"{len(stale)} path(s) leave the iteration with the previous vertex unchanged, e.g. under {[show(c)[:50] for c, _t in stale[0][1]][-1:] if stale else ''}",
                  line=el.get("_line"), firm=True)
        # every edge is counted: an iteration that leaves the edge loop (break / return) with the running parity abandons the edges after it
        def decided(env_):
            vals = [v for k_, v in env_.items() if k_.startswith("inside[")]
            return bool(vals) and all(v[0] == 'num' for v in vals)
        early = [f_ for f_ in full.finals if f_[2] in ("BreakStmt", "return") and not decided(f_[0])]
        rep.check(not early, "R15.b", file, "c_inside", "no iteration leaves the edge loop before the last edge with the crossing parity still open",
                  f"{len(early)} path(s) break out of the edge loop, e.g. under {[show(c)[:60] for c, _t in early[0][1]][-1:] if early else ''}: the edges after that vertex are never tested "
                  "(a vertex list that passes through its first vertex again loses a lobe)", line=el.get("_line"), firm=True)
    except Undecided as ex:
        rep.undecided("R15.b", file, "c_inside", "every path through the edge step advances the previous vertex", str(ex), line=el.get("_line"))

    def polygon_cb(idx):
        c_ = Canon()
        for _cnd, E_ in E_alts:
            d = c_.ratio(idx) - c_.ratio(E_)
            if d.is_zero():
                return ('sym', 'P2X')
            if d == Ratio.const(1):
                return ('sym', 'P2Y')
        raise Undecided(f"polygon[{show(idx)}]")

    def points_cb(idx):
        if cq.same_expr(idx, f"2*{pv}"):
            return ('sym', 'X')
        if cq.same_expr(idx, f"2*{pv}+1"):
            return ('sym', 'Y')
        raise Undecided(f"points[{show(idx)}]")
    bad, n = [], 0
    xint_seen = {True: set(), False: set()}
    for ranks in rank_orders(3):
        ry, r1, r2 = ranks
        for XL, NH, AB in itertools.product([True, False], repeat=3):
            n += 1
            rank_of = {"Y": ry, "P1Y": r1, "P2Y": r2}

            def val(e):
                s_ = show(e)
                if s_ in rank_of:
                    return rank_of[s_]
                if e[0] == 'call' and e[1] in ('min', 'max') and all(show(a) in rank_of for a in e[2]):
                    f = min if e[1] == 'min' else max
                    return f(rank_of[show(a)] for a in e[2])
                return None

            def is_absdiff(e, a, b):
                return e[0] == 'call' and e[1] == 'abs' and (cq.same_expr(e[2][0], f"{a}-{b}") or cq.same_expr(e[2][0], f"{b}-{a}"))

            def oracle(c, XL=XL, NH=NH, AB=AB):
                if c[0] == 'or':
                    # the abscissa predicate as a whole:  |x1-x2| < atol  ||  x <= xinters
                    parts = [c[1], c[2]]
                    vert = [p_ for p_ in parts if p_[0] == 'cmp' and ((p_[1] == '<' and is_absdiff(p_[2], "P1X", "P2X") and show(p_[3]) == "atol") or
                                                                   (p_[1] == '>' and is_absdiff(p_[3], "P1X", "P2X") and show(p_[2]) == "atol"))]
                    absc = [p_ for p_ in parts if p_[0] == 'cmp' and ((p_[1] == '<=' and show(p_[2]) == "X") or (p_[1] == '>=' and show(p_[3]) == "X")) and p_ not in vert]
                    if len(vert) == 1 and len(absc) == 1:
                        xi = absc[0][3] if show(absc[0][2]) == "X" else absc[0][2]
                        xint_seen[NH].add(show(xi))
                        xint_seen.setdefault("expr", {})[NH] = xi
                        return AB
                if c[0] in ('and', 'or', 'not'):
                    return _bool(c, oracle)
                if c[0] != 'cmp':
                    return None
                if only_index(c) is None:
                    return True          # a test on the edge counter only (closing edge or not): both sides name the same vertex roles
                a, b, o = c[2], c[3], c[1]
                va, vb = val(a), val(b)
                if va is not None and vb is not None:
                    return {"<": va < vb, "<=": va <= vb, ">": va > vb, ">=": va >= vb, "==": va == vb, "!=": va != vb}[o]
                sa, sb = show(a), show(b)
                if sa == "X" and b[0] == 'call' and b[1] == 'max' and {show(x) for x in b[2]} == {"P1X", "P2X"} and o == "<=":
                    return XL
                if sb == "X" and a[0] == 'call' and a[1] == 'max' and {show(x) for x in a[2]} == {"P1X", "P2X"} and o == ">=":
                    return XL
                if is_absdiff(a, "P1Y", "P2Y") and sb == "atol" and o == ">":
                    return NH
                if is_absdiff(b, "P1Y", "P2Y") and sa == "atol" and o == "<":
                    return NH
                return None
            ce = CEval(oracle, {"polygon": polygon_cb, "points": points_cb})
            ce.summarise_loops = True
            env = {p1x: ('sym', 'P1X'), p1y: ('sym', 'P1Y')}
            try:
                ce.run(estm, env)
            except Undecided as ex:
                rep.undecided("R15.a", file, "c_inside", f"edge step ordering {ranks}", str(ex), line=el.get("_line"))
                continue
            und = [f_ for f_ in ce.finals if f_[1]]
            if und:
                rep.undecided("R15.a", file, "c_inside", f"edge step ordering {ranks}", "undecided test " + "; ".join(show(c) for c, _t in und[0][1])[:120], line=el.get("_line"))
                continue
            tog = [e for e in ce.effects if e.arr == "inside"]
            if any(not (e.op == "=" and cq.same_expr(e.idx, pv) and cq.same_expr(e.val, f"1 - inside[{pv}]")) for e in tog[:1]) or len(tog) > 1:
                bad.append(f"flag update {[repr(e)[:60] for e in tog]}")
                continue
            toggled = len(tog) == 1
            ymin, ymax = min(r1, r2), max(r1, r2)
            want = (ymin < ry <= ymax) and XL and AB
            if toggled != want:
                rel = f"y {'<=>'[(ry > r1) + (ry >= r1)]} y1, y {'<=>'[(ry > r2) + (ry >= r2)]} y2, y1 {'<=>'[(r1 > r2) + (r1 >= r2)]} y2"
                bad.append(f"[{rel}; x<=xmax={XL}; not-horizontal={NH}; abscissa-test={AB}] toggles={toggled}, half-open rule says {want}")
    rep.check(not bad, "R15.a", file, "c_inside", f"edge step toggles the flag iff ymin < y <= ymax and the abscissa tests hold ({n} cases: 13 orderings x 8 predicate assignments)",
              " | ".join(bad[:3]) + (f" | ... {len(bad)} cases" if len(bad) > 3 else ""), line=el.get("_line"))
    rep.floor("edge step cases", n, 100)
    xe = xint_seen.get("expr", {})
    okx = True in xe and False in xe and cq.same_expr(xe[True], "P1X + (Y - P1Y)*(P2X - P1X)/(P2Y - P1Y)") and cq.same_expr(xe[False], "P1X")
    rep.check(okx, "R15.a", file, "c_inside", "intersection abscissa = x1 + (y - y1)(x2 - x1)/(y2 - y1) when |y1 - y2| > atol, else x1 (no division for horizontal edges)",
              f"non-horizontal: {show(xe[True])[:100] if True in xe else None}; horizontal: {show(xe[False])[:60] if False in xe else None}", line=el.get("_line"))
    # ---- R15.b edges and closure
    okclose = len(E_alts) == 1 and cq.same_expr(E, f"2*({ev} % nvertices)")
    if len(E_alts) == 2:
        # 2*ivert while ivert < nvertices, 0 for the closing edge
        good = 0
        for cnd, E_ in E_alts:
            if cq.holds(cnd, f"{ev} < nvertices", True) and cq.same_expr(E_, f"2*{ev}"):
                good += 1
            elif (cq.excluded(cnd, f"{ev} < nvertices", True) or cq.holds(cnd, f"{ev} >= nvertices", True) or cq.holds(cnd, f"{ev} == nvertices", True)) and cq.same_expr(E_, "0"):
                good += 1
        okclose = good == 2
    pre_ce = cq.evaluate(cq.preceding(ostm, el), oracle=lambda c: False)
    penv = pre_ce.finals[-1][0] if pre_ce.finals else {}
    okstart = p1x in penv and p1y in penv and cq.same_expr(penv[p1x], "polygon[0]") and cq.same_expr(penv[p1y], "polygon[1]")
    rep.check(okclose and okstart and cq.range_is(elr, "1", "nvertices"), "R15.b", file, "c_inside",
              "edges are consecutive vertex pairs starting at vertex 0 and closed through ivert % nvertices (open or closed vertex lists)",
              f"second vertex index {show(E)[:60]}; start {show(penv.get(p1x, num(0)))[:30]}", line=el.get("_line"))
    reset = [e for e in cq.stores(pre_ce, "inside") if e.op == "=" and cq.same_expr(e.idx, pv) and cq.same_expr(e.val, "0")]
    rep.check(len(reset) == 1, "R15.b", file, "c_inside", "flag reset before the edge loop", "", line=outer.get("_line"))
    pre_all = cq.evaluate(cq.preceding(ostm, el))
    box = f"{PX} < polygon_xlim[0] || {PX} > polygon_xlim[1] || {PY} < polygon_ylim[0] || {PY} > polygon_ylim[1]"
    # decided on paths: whatever reaches the edge loop is inside the (closed) box, whatever is skipped is not known to be inside it
    skips = [r for r in pre_all.returns if r[0] == "ContinueStmt"]
    ends_ = [f_ for f_ in pre_all.finals if f_[2] == "end"]
    okbox = bool(skips) and bool(ends_) and all(cq.excluded(f_[1], box, True) for f_ in ends_) and not any(cq.excluded(r[1], box, True) for r in skips)
    rep.check(okbox, "R15.b", file, "c_inside", "points strictly outside the bounding box are skipped (their flag is left as it arrived)",
              f"{len(skips)} skipping path(s), {len(ends_)} path(s) reach the edge loop", line=outer.get("_line"))
    # shim: bounding box from the polygon passed
    P = pyxread.load_all(rep.repo)
    sh = [s for s in P["c_hydrodiy_gis"]["shims"] if s.name == "points_inside_polygon"]
    if not sh:
        raise AnalysisError("c_hydrodiy_gis.pyx: points_inside_polygon shim not found")
    sh = sh[0]
    lims = {}
    for st in sh.body:
        if isinstance(st, ast.Assign) and isinstance(st.targets[0], ast.Subscript):
            lims[ast.unparse(st.targets[0]).replace(" ", "")] = ast.unparse(st.value).replace(" ", "")
    want = {"polygon_xlim[0]": "polygon[:,0].min()", "polygon_xlim[1]": "polygon[:,0].max()", "polygon_ylim[0]": "polygon[:,1].min()", "polygon_ylim[1]": "polygon[:,1].max()"}
    rep.check(lims == want, "R15.b", "gis/c_hydrodiy_gis.pyx", "points_inside_polygon", "bounding box = min/max of the columns of the polygon that is passed to the kernel", str(lims), line=sh.line)
    shims = {cm: {s_.name: s_ for s_ in d["shims"]} for cm, d in P.items()}
    sites, _ = xlayer.find_sites(rep.repo, shims)
    st = [s for s in sites if s.shim.name == "points_inside_polygon"]
    if len(st) != 1:
        raise AnalysisError("gis/gutils.py: call site of points_inside_polygon not found")
    st = st[0]
    v = st.args.get("inside")
    xlayer.check_init(rep, v, ("zeros",), "R15.b", "gis/gutils.py", "points_inside_polygon",
                      "`inside` is zero on every path to the kernel (np.zeros when allocated here, fill(0) when supplied by the caller)", st.call.lineno, need_fresh=False,
                      detail_bad=f"init at the call: {v[1].init if v else None}: a re-used buffer keeps stale answers for points outside the bounding box", fdef=st.func)
    ok, how, _ = xlayer.error_discipline(st)
    rep.check(ok, "R15.b", "gis/gutils.py", "points_inside_polygon", "kernel error code raises", how, line=st.call.lineno)
    pa_ = pq.call_arguments(st.func, st.call, list(st.shim.params))
    for pn_ in ("polygon", "points"):
        val_ = pa_.get(pn_)
        if val_ is None:
            rep.undecided("R15.b", "gis/gutils.py", "points_inside_polygon", f"`{pn_}` handed to the kernel is the caller's array, all rows", "argument not bound", line=st.call.lineno)
            continue
        cut = [show(x)[:60] for _c, alt in pq.split_where(val_) for x in pq.find(alt, lambda y: pq.call_named(y, "getitem") or pq.call_named(y, "delete") or pq.call_named(y, "unique"))]
        rep.check(not cut and pq.mentions(val_, lambda y: y == ('sym', pn_)), "R15.b", "gis/gutils.py", "points_inside_polygon",
                  f"`{pn_}` handed to the kernel is the caller's array, all rows (conversions only)", f"{cut[:1]}", line=st.call.lineno, firm=True)
    # the tolerance is an absolute one in the kernel (edges with |y1 - y2| <= atol are treated as horizontal): what reaches it must not depend
    # on the coordinates, or the answer changes when polygon and points are translated together
    tol_ = pa_.get("atol")
    cons_t = "the tolerance handed to the kernel is the caller's `atol` (independent of the coordinates)"
    if tol_ is None:
        rep.undecided("R15.b", "gis/gutils.py", "points_inside_polygon", cons_t, "argument not bound", line=st.call.lineno)
    else:
        alts_ = [alt for _c, alt in pq.split_where(tol_)]
        data_dep = [alt for alt in alts_ if pq.mentions(alt, lambda y: y in (('sym', 'polygon'), ('sym', 'points')))]
        if data_dep:
            rep.violation("R15.b", "gis/gutils.py", "points_inside_polygon", cons_t,
                          f"tolerance computed from the data: {show(data_dep[0])[:120]}: with large coordinates a gently sloping edge is taken for horizontal and its "
                          "crossing is not interpolated", line=st.call.lineno, firm=True)
        elif all(pq.same(alt, "atol") for alt in alts_):
            rep.proved("R15.b", "gis/gutils.py", "points_inside_polygon", cons_t, line=st.call.lineno)
        else:
            rep.undecided("R15.b", "gis/gutils.py", "points_inside_polygon", cons_t, show(tol_)[:120], line=st.call.lineno)
    names = {pn: ast.unparse(x[0]) for pn, x in st.args.items()}
    rep.check(names.get("points") == "points" and names.get("polygon") == "polygon" and names.get("atol") == "atol", "R15.b", "gis/gutils.py", "points_inside_polygon",
              "points, polygon and tolerance bound to the same-named shim parameters", str(names), line=st.call.lineno)
    # ---- R15.c
    mod = Mod(rep.repo, "gis/grid.py")
    f = mod.func("Grid.cells_inside_polygon")
    rets = [p_ for p_ in pq.PEval().run(f) if p_.how == "return"]
    if not rets:
        raise AnalysisError("gis/grid.py: Grid.cells_inside_polygon: no returning path")
    v = rets[0].value
    CELLS = "np.arange(self.nrows*self.ncols)"
    PTS = f"self.cell2coord({CELLS})"
    FLAGS = f"gutils.points_inside_polygon({PTS}, polygon)"
    masks = [f"({FLAGS}).astype(bool)", f"np.flatnonzero({FLAGS} != 0)", f"{FLAGS} != 0", f"{FLAGS} == 1", f"{FLAGS} > 0", f"np.flatnonzero({FLAGS})",
             f"np.nonzero({FLAGS})[0]", f"np.where({FLAGS})[0]"]
    okd = True
    det = ""
    for p_ in rets:
        v = p_.value
        okp = False
        if pq.call_named(v, ".DataFrame") and len(v[2]) >= 2 and pq.call_named(v[2][1], "dict"):
            keys, vals = v[2][1][2][0][1], v[2][1][2][1][1]
            got = {k_[1].strip("'\""): x for k_, x in zip(keys, vals) if k_[0] == 'sym'}
            for m in masks:
                if set(got) == {"x", "y", "cell"} and pq.same(got["x"], f"{PTS}[{m}, 0]") and pq.same(got["y"], f"{PTS}[{m}, 1]") and pq.same(got["cell"], f"{CELLS}[{m}]"):
                    okp = True
        if not okp:
            okd = False
            det = show(v)[:200]
    rep.check(okd, "R15.c", "gis/grid.py", "Grid.cells_inside_polygon",
              "returns x, y and cell number of exactly the flagged cells, the points tested being the centres (cell2coord) of all nrows*ncols cells against the given polygon",
              det, line=f.lineno)
    return EXPLANATION


def _edge_walk(cev, stmts, env, roles):
    """evaluate the edge step; returns True when the flag is toggled.  `dist` gets a role symbol at each definition."""
    toggled = [False]

    def walk(stmts):
        for s in stmts:
            k = s.get("kind")
            if k == "CompoundStmt":
                walk(s.get("inner", []))
            elif k == "IfStmt":
                c = cev.ex(s["inner"][0], env)
                d = cev.oracle(c)
                if d is None:
                    raise Undecided(f"condition {show(c)}")
                br = s["inner"][1] if d else (s["inner"][2] if len(s["inner"]) > 2 else None)
                if br is not None:
                    walk([br])
            elif k == "BinaryOperator" and s.get("opcode") == "=":
                tgt = text(s["inner"][0])
                if tgt == "dist":
                    env["dist"] = ('sym', next(roles))
                elif tgt == "xinters":
                    env["xinters"] = ('sym', 'XINT')
                elif tgt.startswith("inside["):
                    v = cev.ex(s["inner"][1], env)
                    if show(v).replace(" ", "") in ("(1-IN0)",):
                        toggled[0] = not toggled[0]
                    else:
                        raise Undecided(f"flag update {show(v)}")
                else:
                    env[tgt] = cev.ex(s["inner"][1], env)
            elif k == "CompoundAssignOperator":
                tgt = text(s["inner"][0])
                if tgt == "xinters":
                    env["xinters"] = ('sym', 'XINT')
            else:
                pass
    walk(stmts)
    return toggled[0]
