"""C02 -- the Jacobian is the derivative of forward, and forward is increasing (structural clauses)."""
from ..core import AnalysisError
from .. import tmethods, formula as F
from ..formula import Ratio, Undecided
from . import c01

EXPLANATION = (
    "From the guarded closed forms extracted for C01: _jacobian selects the same branches and masks as _forward; "
    "its domain mask (np.where(cond, value, nan)) bounds the argument of the first domain-restricting operation "
    "of forward (up to the class's tolerance constant); the chain-rule derivative of the forward chain, kept as "
    "a monomial coeff x prod(value**exponent), equals the monomial parsed from the _jacobian expression; and a "
    "sign evaluation of that monomial on the declared parameter bounds gives > 0.  Valid for every parameter "
    "value and x in exact arithmetic; the 1e-4 numerical accuracy is not decided.")

# derivative identity outside the monomial form (needs algebraic rewriting): declared, not claimed
OUTSIDE_MONO = {"Logit": "value*(1-value) product form", "LogSinh": "coth form", "Softmax": "determinant"}
TOL_SYMS = {"mininu", "EPS"}


def domain_ok(cond, fchain, rep_detail, tol=None):
    """jacobian mask `g(x) > t`: chain of (lhs - rhs) must equal, up to an additive tolerance constant, the
    prefix of the forward chain that feeds its first log / pow operation.  -> (ok | None, detail)"""
    if cond[0] in ('and', 'or'):
        return None, "composite mask"
    if cond[0] != 'cmp' or cond[1] not in ('>', '>=', '<', '<='):
        return None, "mask form"
    op, a, b = cond[1], cond[2], cond[3]
    if op in ('<', '<='):
        a, b = b, a
    try:
        ch = F.to_chain(('sub', a, b))
    except Undecided as ex:
        return None, str(ex)
    # prefix of the forward chain before the first log / pow
    pre = []
    flat = []
    for o in fchain:
        if o[0] == 'odd':
            flat.append(('abs',))
            flat.extend(o[1])
        else:
            flat.append(o)
    for o in flat:
        if o[0] in ('log', 'pow'):
            break
        pre.append(o)
    else:
        return None, "forward has no domain-restricting operation"
    pre = F.normalise(pre)
    if len(ch) != len(pre):
        return False, f"mask argument {F.show_chain(ch)} vs forward argument {F.show_chain(pre)}"
    for x, y in zip(ch, pre):
        if x[0] != y[0]:
            return False, f"mask argument {F.show_chain(ch)} vs forward argument {F.show_chain(pre)}"
        if x[0] == 'aff':
            if not x[1] == y[1]:
                return False, f"mask slope {x[1]} vs forward slope {y[1]}"
            d = x[2] - y[2]
            if not (d.is_zero() or d.symbols() <= (TOL_SYMS if tol is None else tol)):
                return False, f"mask offset differs from the forward argument by {d}, not a tolerance constant"
    return True, f"mask bounds {F.show_chain(pre)} from below"


def _flat_and(c):
    if c[0] == 'and':
        return _flat_and(c[1]) + _flat_and(c[2])
    return [c]


def interval_domain_ok(cond, fchain, bounds, eps_value=1e-10):
    """composite mask `x > L & x < U` (both sides affine in x): the interval (L, U) is pushed through the forward chain; every
    pow(-1) must see an interval that excludes 0 and every log a positive one.  Signs are decided for ratios of polynomials with
    positive coefficients over positive symbols (EPS, D); an atom exp(p) whose parameter's lower bound gives exp(lb) > EPS is
    written EPS + D with D > 0.  -> (True | None, detail)"""
    import math
    from ..poly import Poly
    lo = hi = None
    for c in _flat_and(cond):
        if c[0] != 'cmp' or c[1] not in ('>', '>=', '<', '<='):
            return None, "mask form"
        a, b = (c[2], c[3]) if c[1] in ('>', '>=') else (c[3], c[2])
        try:
            ch = F.to_chain(('sub', a, b))
        except Undecided as ex:
            return None, str(ex)
        if len(ch) != 1 or ch[0][0] != 'aff' or not ch[0][1].is_const() or ch[0][1].is_zero():
            return None, "mask bound is not affine in x"
        s, o = ch[0][1], ch[0][2]
        bnd = -o / s
        if s.cval() > 0:
            lo = bnd
        else:
            hi = bnd
    if lo is None or hi is None:
        return None, "one-sided composite mask"
    subst = {}

    def prep(r):
        n, d = r.n, r.d
        for sym in sorted(r.symbols()):
            if sym.startswith("⟨exp(") and sym not in subst:
                inner = sym[len("⟨exp("):].split(")")[0]
                lb = bounds.get(inner, (None, None, None))[0]
                if lb is not None and math.exp(lb) > eps_value:
                    subst[sym] = Poly.sym('EPS') + Poly.sym('D:' + inner)
        for sym, pl in subst.items():
            n, d = n.subst(sym, pl), d.subst(sym, pl)
        return Ratio(n, d)

    def positive(r):
        r = prep(r)
        pos = {"EPS"} | {x for x in r.symbols() if x.startswith("D:")}
        def sgn(poly):
            if not poly.t or not poly.symbols() <= pos:
                return None
            cs = list(poly.t.values())
            return 1 if all(c > 0 for c in cs) else -1 if all(c < 0 for c in cs) else None
        a, b = sgn(r.n), sgn(r.d)
        return a is not None and b is not None and a == b

    def known_sign(r):
        if r.is_const():
            return 1 if r.cval() > 0 else -1 if r.cval() < 0 else 0
        if positive(r):
            return 1
        if positive(-r):
            return -1
        return None
    flat = []
    for o in fchain:
        if o[0] == 'odd':
            return None, "odd extension in the chain"
        flat.append(o)
    INF = "inf"
    for o in flat:
        if o[0] == 'aff':
            sg = known_sign(o[1])
            if sg is None or sg == 0:
                return None, f"sign of the slope {o[1]} unknown"
            f_ = lambda v: v if isinstance(v, str) else o[1] * v + o[2]
            nlo, nhi = f_(lo), f_(hi)
            if sg < 0:
                nlo, nhi = nhi, nlo
                nlo = "-inf" if isinstance(nlo, str) and nlo == INF else nlo
                nhi = INF if isinstance(nhi, str) and nhi == "-inf" else nhi
            lo, hi = nlo, nhi
        elif o[0] == 'pow' and o[1].is_const() and o[1].cval() == -1:
            if isinstance(lo, str) or not positive(lo):
                return None, f"cannot show the argument of 1/(.) is positive: lower end {lo}"
            lo, hi = (Ratio.const(0) if isinstance(hi, str) else hi.inv()), lo.inv()
        elif o[0] == 'log':
            if isinstance(lo, str) or not positive(lo):
                return None, f"cannot show the argument of log is positive: lower end {lo}"
            return True, "the masked interval keeps every 1/(.) and log argument of forward positive (interval propagation)"
        else:
            return None, f"operation {o[0]} in the chain"
    return None, "forward has no domain-restricting operation"


def sign_of_ratio(r, bounds, cdef):
    """+1 / -1 / None for a Ratio whose numerator and denominator are single terms; ('mixed', symbol) when exactly one
    odd-power symbol has declared numeric bounds that contain zero or values of both signs while every other factor has
    a known sign (the coefficient then takes non-positive values for an admissible parameter)"""
    sgn = 1
    mixed = []
    for poly in (r.n, r.d):
        if len(poly.t) != 1:
            return None
        (m, c), = poly.t.items()
        if c == 0:
            return None
        if c < 0:
            sgn = -sgn
        for s_, e_ in m:
            if e_ % 2 == 0:
                continue
            if s_.startswith("⟨exp("):
                continue
            lo, hi, losym = bounds.get(s_, (None, None, None))
            if lo is not None and lo > 0:
                continue
            if losym is not None and cdef.get(losym) is not None and cdef[losym] > 0:
                continue
            if hi is not None and hi < 0:
                sgn = -sgn
                continue
            if lo is not None and hi is not None and lo <= 0 <= hi and losym is None:
                mixed.append(s_)
                continue
            return None
    if mixed:
        return ('mixed', mixed[0]) if len(mixed) == 1 else None
    return sgn


def run(rep):
    file = "stat/transform.py"
    rep.rule("R02.a", "_jacobian selects the same branches / masks as _forward; its nan-mask bounds the forward's domain argument")
    rep.rule("R02.b", "chain-rule derivative of the forward chain == monomial of the _jacobian expression")
    rep.rule("R02.c", "the Jacobian monomial is > 0 on the masked domain for every admissible parameter")
    rep.rule("R02.d", "Jacobians outside the monomial vocabulary (Logit, LogSinh, Softmax determinant): _jacobian == derivative of the extracted forward formula, by computer algebra")
    rep.assume("exact real arithmetic; the masked domain makes every power base positive")
    mod, classes, table = c01.extract(rep)
    rep.unit(f"{file}: {len(c01.CATALOGUE)} _jacobian methods against their _forward")
    nder = 0
    for name in c01.CATALOGUE:
        tc = classes[name]
        line = tc.methods["_jacobian"].lineno
        fw, jc = table[name]["_forward"], table[name]["_jacobian"]
        bounds = c01.bounds_of(tc, classes)
        cdef = c01.ctor_defaults_of(tc)
        for meth_, res_ in (("_jacobian", jc), ("_forward", fw)):
            for i in res_[1]:
                if i.rule == "R01.d":
                    rep.violation("R02.a", file, f"{name}.{meth_}", i.construct, i.detail, line=i.line)
        if fw[0] is None or jc[0] is None:
            if name in c01.OUTSIDE_CHAIN:
                rep.notes.append(f"{name}: outside the chain vocabulary ({c01.OUTSIDE_CHAIN[name]})")
            else:
                rep.undecided("R02.b", file, name, f"{name}: extraction", fw[2] or jc[2], line=line)
            continue
        c01.branch_agreement(rep, "R02.a", name, file, "_forward", fw[0], "_jacobian", jc[0], line)
        # an odd extension sign(x) * h(|x|) is increasing through 0 only if h(0) = 0: the offset subtracted must be the inner formula at 0, in
        # every parameter branch (a jump at the origin breaks x1 < x2 => forward(x1) <= forward(x2) for points either side of it)
        for c in fw[0]:
            e_ = c.expr
            if not (isinstance(e_, tuple) and e_[0] == 'mul' and any(isinstance(t_, tuple) and t_[:2] == ('call', 'sign') for t_ in e_[1:3])):
                continue
            inner = e_[2] if e_[1][:2] == ('call', 'sign') else e_[1]

            def at_zero(t_):
                if t_ == ('x',):
                    return F.num(0)
                if isinstance(t_, tuple) and t_[:2] == ('call', 'abs') and t_[2] == (('x',),):
                    return F.num(0)
                if isinstance(t_, tuple):
                    return tuple(at_zero(u_) if isinstance(u_, tuple) else u_ for u_ in t_)
                return t_
            cons0 = f"{name} [{c01.case_text(c)}]: odd extension is continuous at 0 (the offset is the inner formula at x = 0)"
            try:
                z = F.Canon().ratio(at_zero(inner))
                rep.check(z.is_zero(), "R02.c", file, f"{name}._forward", cons0, f"inner formula at 0 = {z}: forward jumps by twice that at the origin", line=tc.methods["_forward"].lineno)
            except Undecided as ex:
                rep.undecided("R02.c", file, f"{name}._forward", cons0, str(ex), line=tc.methods["_forward"].lineno)
        for m_ in ("_forward", "_jacobian"):
            c01.shortcut_agreement(rep, "R02.a", name, file, m_, table[name][m_][0], table[name].get("shortcuts:" + m_, []), line)
        for c in fw[0]:
            partner = [y for y in jc[0] if c01.same_case(c, y)]
            if len(partner) != 1:
                continue
            j = partner[0]
            ctext = c01.case_text(c)
            try:
                fchain = F.to_chain(c.expr)
            except Undecided as ex:
                if name not in c01.OUTSIDE_CHAIN:
                    rep.undecided("R02.b", file, name, f"{name} [{ctext}]: forward chain", str(ex), line=line)
                continue
            # masks: the data-dependent mask expression of the jacobian equals that of forward
            for (pf, mf), (pj, mj) in zip(c.masks, j.masks):
                if mf is None or mj is None:
                    continue
                rep.check(tmethods.mask_equal(mf, mj), "R02.a", file, f"{name}._jacobian", f"{name} [{ctext}]: mask expression",
                          f"forward {F.show(mf)} ; jacobian {F.show(mj)}", line=line)
            # domain conditions
            for dcond in j.domains:
                if c.domains and any(dcond == d for d in c.domains):
                    rep.proved("R02.a", file, f"{name}._jacobian", f"{name} [{ctext}]: nan-mask {F.show(dcond)}",
                               "same condition as forward", line=line)
                    continue
                ok, det = domain_ok(dcond, fchain, None)
                if ok is None and dcond[0] == 'and':
                    ok, det = interval_domain_ok(dcond, fchain, bounds)
                cons = f"{name} [{ctext}]: nan-mask {F.show(dcond)}"
                if ok is None:
                    rep.undecided("R02.a", file, f"{name}._jacobian", cons, det, line=line)
                else:
                    rep.check(ok, "R02.a", file, f"{name}._jacobian", cons, det, line=line)
            if name in OUTSIDE_MONO:
                continue
            cons = f"{name} [{ctext}]: d forward / dx"
            try:
                want = F.derivative(fchain)
                got = F.to_mono(j.expr)
            except Undecided as ex:
                rep.undecided("R02.b", file, name, cons, str(ex), line=line)
                continue
            nder += 1
            ok = want.equal(got)
            rep.check(ok, "R02.b", file, f"{name}._jacobian", cons, f"derivative of forward: {want} ; _jacobian: {got}", line=line)
            # R02.c sign
            s = sign_of_ratio(got.coeff, bounds, cdef)
            cons = f"{name} [{ctext}]: sign of the Jacobian"
            if s is None:
                if name == "Log" and "basefactor" in got.coeff.symbols():
                    rep.assumed("R02.c", file, f"{name}._jacobian", cons,
                                "coefficient 1/log(base): positive for every base > 1 (a base below 1 makes the "
                                "transform decreasing by definition)", line=line)
                else:
                    rep.undecided("R02.c", file, f"{name}._jacobian", cons, f"sign of coefficient {got.coeff} unknown", line=line)
            elif isinstance(s, tuple):
                b_ = bounds.get(s[1])
                rep.violation("R02.c", file, f"{name}._jacobian", cons,
                              f"coefficient {got.coeff}: the declared bounds [{b_[0]}, {b_[1]}] of {s[1]} admit values <= 0, where the Jacobian is not positive", line=line)
            else:
                rep.check(s > 0, "R02.c", file, f"{name}._jacobian", cons,
                          f"coefficient {got.coeff} has sign {s}; every other factor is a power of a value made positive by the mask, an exponential or a cosh", line=line)
    rep.floor("derivative identities decided", nder, 22)
    # R02.d
    from .. import symx, pq
    nalg = 0
    for name in OUTSIDE_MONO:
        tc = classes[name]
        line = tc.methods["_jacobian"].lineno
        try:
            clauses = symx.class_model((rep.repo, name), tc.methods, pq)
        except Undecided as ex:
            rep.undecided("R02.d", file, name, f"{name}: computer-algebra model", str(ex), line=line)
            continue
        for clause, ok, det in clauses:
            if "jacobian" not in clause.lower():
                continue
            nalg += 1
            cons = f"{name}: {clause}"
            if ok is None:
                rep.undecided("R02.d", file, f"{name}._jacobian", cons, det, line=line)
            else:
                rep.check(ok, "R02.d", file, f"{name}._jacobian", cons, det, line=line)
    rep.floor("computer-algebra Jacobian clauses", nalg, 8)
    # R02.e avoidable overflow in the Jacobian (same clause as R01.h)
    rep.rule("R02.e", "no avoidable overflow in _jacobian: an exp / sinh / cosh intermediate with an argument unbounded on the domain must overflow together with the result or propagate to its limit")
    nov = 0
    for name in c01.CATALOGUE:
        tc = classes[name]
        line = tc.methods["_jacobian"].lineno
        try:
            clauses = [c_ for c_ in symx.overflow_clauses(tc.methods["_forward"], tc.methods["_backward"], pq, jac=tc.methods["_jacobian"]) if c_[0].startswith("_jacobian")]
        except Undecided as ex:
            rep.notes.append(f"R02.e: {name} not modelled ({str(ex)[:60]})")
            continue
        nov += 1
        if not clauses:
            rep.proved("R02.e", file, f"{name}._jacobian", f"{name}: no exponential intermediate with an unbounded argument in _jacobian", line=line)
        for clause, ok, det in clauses:
            rep.check(ok, "R02.e", file, f"{name}._jacobian", f"{name}: {clause}", det, line=line)
    rep.floor("Jacobians modelled for overflow", nov, 5)
    # the sign analysis (R02.c) reads the declared parameter bounds: they hold only if the container enforces them on every write
    from ..core import borrow
    nb_ = borrow(rep, "C12", "R02.f", "declared parameter bounds are enforced on every write of a parameter vector (validation clauses decided for C12)",
                 lambda e: e.rule == "R12.b")
    rep.floor("bound-enforcement clauses taken over from C12", nb_, 3)
    return EXPLANATION
