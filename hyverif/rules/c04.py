"""C04 -- deterministic and categorical skill scores equal their definitions (formula agreement)."""
import ast

from ..core import AnalysisError
from ..pyfront import Mod, dotted, const_value
from ..formula import ExprBuilder, Canon, Ratio, Undecided, show, kids
from ..fneval import FnEval
from ..poly import Poly

EXPLANATION = (
    "The closed forms returned by bias, nse, kge, corr and binary are extracted from stat/metrics.py (locals "
    "substituted forward, one path per option value) and compared, as exact rational expressions over "
    "uninterpreted reducers (mean, sum, std, corrcoef, spearmanr, log, sqrt), with the textbook definitions "
    "written in this checker; the series that reach every statistic must be trans.forward of the inputs, "
    "filtered after the transform by one common mask when excludenull is set; NaN guards must dominate the "
    "divisions they protect; every guard of a binary score must hold on the whole domain of 2x2 tables with "
    "positive counts; the confusion matrix orientation must match the unpacking and the padding must restore and "
    "re-order both axes.  Numerical values of numpy/pandas/scipy reducers are trusted.")

REF = {
    ("bias", "'standard'"): "(np.mean(ts) - np.mean(to)) / np.mean(to)",
    ("bias", "'normalised'"): "(np.mean(ts) - np.mean(to)) / (np.mean(ts) + np.mean(to))",
    ("bias", "'log'"): "math.log(np.mean(ts)) - math.log(np.mean(to))",
    ("nse", None): "1 - np.sum((ts - to)**2) / np.sum((np.mean(to) - to)**2)",
    ("kge", None): "1 - math.sqrt((1 - np.mean(ts)/np.mean(to))**2 + (1 - np.std(ts)/np.std(to))**2 + (1 - np.corrcoef(to, ts)[0, 1])**2)",
    ("corr", "'Pearson'"): "np.corrcoef(to, ts)[0, 1]",
    ("corr", "other"): "spearmanr(to, ts).correlation",
}
BINARY_REF = {
    "truepos": "TP", "falsepos": "FP", "trueneg": "TN", "falseneg": "FN",
    "bias": "(TP+FP)/(TP+FN)",
    "hitrate": "TP/(TP+FN)",
    "precision": "TP/(TP+FP)",
    "falsealarm": "FP/(FP+TN)",
    "accuracy": "(TP+TN)/(TP+TN+FP+FN)",
    "F1": "2*TP/(2*TP+FP+FN)",
    "MCC": "(TP*TN-FP*FN)/math.sqrt((TP+FP)*(TP+FN)*(TN+FP)*(TN+FN))",
    "LOR": "math.log(TP*TN/(FP*FN))",
    "ORSS": "(TP*TN-FP*FN)/(TP*TN+FP*FN)",
    "EDS": "2*math.log((TP+FN)/(TP+TN+FP+FN))/math.log(TP/(TP+TN+FP+FN))-1",
}


def mk_resolver():
    def resolve_call(e, env, builder):
        d = dotted(e.func)
        if d and d.endswith(".forward") and len(e.args) == 1 and isinstance(e.func, ast.Attribute) and isinstance(e.func.value, ast.Name):
            return ('call', 'T:' + e.func.value.id, (builder.build(e.args[0], env),))
        if d in ("__nonulldata", "_nonulldata") and len(e.args) == 2:
            a, b = builder.build(e.args[0], env), builder.build(e.args[1], env)
            return ('tuple', (('call', 'F', (a, a, b)), ('call', 'F', (b, a, b))))
        if d in ("__check_ensemble_data",) and len(e.args) == 2:
            a, b = builder.build(e.args[0], env), builder.build(e.args[1], env)
            return ('tuple', (('call', 'V0', (a, b)), ('call', 'V1', (a, b)), ('sym', 'nforc'), ('sym', 'nens')))
        if d in ("spearmanr", "scipy.stats.spearmanr", "stats.spearmanr"):
            return ('call', 'spearmanr', tuple(builder.build(a, env) for a in e.args))
        if d in ("pd.notnull", "pd.isnull", "len"):
            return ('call', d, tuple(builder.build(a, env) for a in e.args))
        return None

    def resolve_attr(d, env):
        if d == "EPS":
            return ('sym', 'EPS')
        if d.endswith(".T") and d[:-2] in env:
            return env[d[:-2]]          # transposition is a layout matter, not part of the formula
        if d.endswith(".shape"):
            return ('sym', d)
        return None
    return resolve_attr, resolve_call


def positive_ratio(r, possyms):
    """numerator and denominator have only positive coefficients over symbols known to be positive"""
    for poly in (r.n, r.d):
        if not poly.t:
            return False
        if not all(c > 0 for c in poly.t.values()):
            if all(c < 0 for c in poly.t.values()):
                continue
            return False
        if not poly.symbols() <= possyms:
            return False
    sn = all(c > 0 for c in r.n.t.values())
    sd = all(c > 0 for c in r.d.t.values())
    return sn == sd and r.n.symbols() <= possyms and r.d.symbols() <= possyms


def run(rep):
    rel = "stat/metrics.py"
    mod = Mod(rep.repo, rel)
    rep.rule("R04.a", "both series go through the same trans.forward; the null filter comes after the transform with one mask; statistics read the filtered series")
    rep.rule("R04.b", "returned expression == textbook definition (exact rational identity over uninterpreted reducers)")
    rep.rule("R04.c", "every guard of a binary score holds on the whole domain of tables with four positive counts")
    rep.rule("R04.d", "confusion matrix: crosstab(obs, sim) orientation matches the unpacking; padding restores and re-orders both axes")
    rep.rule("R04.e", "NaN-with-warning guards on a small observed mean / standard deviation dominate the divisions they protect")
    rep.assume("np.mean/np.sum/np.std/np.corrcoef/scipy.stats.spearmanr/pd.crosstab compute what their names say")
    ra, rc = mk_resolver()
    nform = 0
    for fname in ("bias", "nse", "kge", "corr"):
        f = mod.func(fname)
        pn = [a.arg for a in f.args.args]
        env = {p: ('sym', p) for p in pn}
        fe = FnEval(ra, rc)
        try:
            paths = fe.run(f, env)
        except Undecided as ex:
            rep.undecided("R04.b", rel, fname, f"{fname}: extraction", str(ex), line=f.lineno)
            continue
        second = "sim" if "sim" in pn else "ens"
        for p in paths:
            if p.value in (('nan',), ('raise',)) or p.value == ('sym', 'None'):
                continue
            flags = {}
            for c, truth in p.conds:
                if c == ('sym', 'excludenull'):
                    flags["excludenull"] = truth
                elif c[0] == 'cmp' and c[1] == '==' and c[2][0] == 'sym' and c[2][1] in ("type", "stat") and truth:
                    flags[c[2][1]] = c[3][1]
            excl = flags.get("excludenull", False)
            tkey = flags.get("type")
            if fname == "corr":
                tkey = "'Pearson'" if tkey == "'Pearson'" else "other"
            if fname in ("nse", "kge"):
                tkey = None
            refsrc = REF.get((fname, tkey))
            label = f"{fname}(excludenull={excl}" + (f", type={tkey}" if tkey else "") + (f", stat={flags.get('stat')}" if fname == "corr" else "") + ")"
            if refsrc is None:
                rep.undecided("R04.b", rel, fname, label, f"no reference for option {tkey}", line=p.line)
                continue
            # expected transformed series
            if fname == "corr":
                obs_in = ('call', 'V0', (('sym', 'obs'), ens_prepared(f)))
                ens_in = ('call', 'V1', (('sym', 'obs'), ens_prepared(f)))
                stat = flags.get("stat")
                red = 'nanmean' if stat == "'mean'" else 'nanmedian'
                to0 = ('call', 'T:trans', (obs_in,))
                ts0 = ('call', red, (('call', 'T:trans', (ens_in,)),), (('axis', '1'),))
            else:
                to0 = ('call', 'T:trans', (('sym', 'obs'),))
                ts0 = ('call', 'T:trans', (('sym', second),))
            if excl:
                to, ts = ('call', 'F', (to0, to0, ts0)), ('call', 'F', (ts0, to0, ts0))
            else:
                to, ts = to0, ts0
            cn = Canon()
            try:
                want = cn.ratio(ExprBuilder(ra, rc).build(ast.parse(refsrc, mode="eval").body, {"to": to, "ts": ts}))
                got = cn.ratio(p.value)
            except Undecided as ex:
                rep.undecided("R04.b", rel, fname, label, str(ex), line=p.line)
                continue
            nform += 1
            ok = want == got
            rep.check(ok, "R04.b", rel, fname, label + ": returned formula",
                      "" if ok else f"returned {show(p.value)[:160]} ; definition on the transformed"
                      f"{' and filtered' if excl else ''} series: {refsrc}", line=p.line)
            # R04.a is implied by the identity on (to, ts); make the pipeline facts explicit for the report
            rep.proved("R04.a", rel, fname, label + ": statistics read trans.forward of both series" + (", filtered after the transform by one mask" if excl else ""), line=p.line)
            # R04.e guards
            need = {"bias": ["np.mean(to)"], "kge": ["np.mean(to)", "np.std(to)", "np.std(ts)"], "corr": ["np.std(to)"], "nse": []}[fname]
            for g in need:
                gr = cn.ratio(ExprBuilder(ra, rc).build(ast.parse(g, mode="eval").body, {"to": to, "ts": ts}))
                found = False
                for c, truth in p.conds:
                    # abs(X) < EPS false  /  abs(X) > EPS true
                    if c[0] == 'cmp' and c[2][0] == 'call' and c[2][1] == 'abs':
                        try:
                            xr = cn.ratio(c[2][2][0])
                        except Undecided:
                            continue
                        if xr == gr and ((c[1] in ('<', '<=') and not truth) or (c[1] in ('>', '>=') and truth)) and c[3] == ('sym', 'EPS'):
                            found = True
                rep.check(found, "R04.e", rel, fname, f"{label}: division by {g} guarded",
                          f"no dominating `abs({g}) < EPS -> nan` guard on this path", line=p.line)
    rep.floor("score formulas compared", nform, 14)
    # __nonulldata: one mask for both series
    nn = mod.funcs.get("__nonulldata")
    if nn is None:
        raise AnalysisError(f"{rel}: __nonulldata not found")
    ret = [s for s in nn.body if isinstance(s, ast.Return)]
    okm = False
    if ret and isinstance(ret[0].value, ast.Tuple) and len(ret[0].value.elts) == 2:
        a, b = ret[0].value.elts
        pa = [x.arg for x in nn.args.args]
        okm = isinstance(a, ast.Subscript) and isinstance(b, ast.Subscript) and dotted(a.value) == pa[0] and dotted(b.value) == pa[1] and \
            ast.unparse(a.slice) == ast.unparse(b.slice)
        if okm:
            mname = ast.unparse(a.slice)
            md = [s for s in nn.body if isinstance(s, ast.Assign) and isinstance(s.targets[0], ast.Name) and s.targets[0].id == mname]
            txt = ast.unparse(md[0].value).replace(" ", "") if md else ""
            okm = txt in (f"pd.notnull({pa[0]})&pd.notnull({pa[1]})", f"pd.notnull({pa[1]})&pd.notnull({pa[0]})",
                          f"np.isfinite({pa[0]})&np.isfinite({pa[1]})")
    rep.check(okm, "R04.a", rel, "__nonulldata", "returns both series indexed by the same mask notnull(a) & notnull(b)", "", line=nn.lineno)

    # ---------------- binary ----------------------------------------------------------------------------------------------
    f = mod.func("binary")
    fe = FnEval(ra, rc)
    env = {"conf_mat": ('sym', 'cm')}
    # evaluate with an environment recorder
    envs = []
    orig_walk = fe.walk

    def rec_walk(stmts, env_, conds):
        for s in stmts:
            if isinstance(s, ast.Return):
                envs.append((dict(env_), list(conds), s))
        return orig_walk(stmts, env_, conds)
    # simpler: re-run builder on the dict literals at each return path
    paths = []

    def walk(stmts, env_, conds):
        for i, s in enumerate(stmts):
            if isinstance(s, ast.Assign):
                try:
                    v = fe.b(s.value, env_)
                except Undecided:
                    if isinstance(s.value, ast.Dict):
                        v = ('dict', s.value)
                        env_["@dict:" + s.targets[0].id] = (s.value, dict(env_))
                        continue
                    v = ('sym', '?' + ast.unparse(s.value)[:30])
                for t in s.targets:
                    fe.bind(t, v, env_)
            elif isinstance(s, ast.AugAssign) and isinstance(s.target, ast.Name):
                op = {ast.Add: 'add', ast.Sub: 'sub', ast.Mult: 'mul', ast.Div: 'div'}[type(s.op)]
                env_[s.target.id] = (op, env_[s.target.id], fe.b(s.value, env_))
            elif isinstance(s, ast.If):
                t = fe.b(s.test, env_)
                if any(isinstance(x, ast.Raise) for x in s.body) and not s.orelse:
                    continue
                walk(list(s.body) + stmts[i + 1:], dict(env_), conds + [(t, True)])
                walk(list(s.orelse) + stmts[i + 1:], dict(env_), conds + [(t, False)])
                return
            elif isinstance(s, ast.Return):
                paths.append((dict(env_), conds, s))
                return
    walk(f.body, env, [])
    if not paths:
        raise AnalysisError(f"{rel}: binary: no return path")
    # symbols of the four counts from the unpacking
    e0 = paths[0][0]
    counts = {}
    for nm in ("TN", "FP", "FN", "TP"):
        if nm not in e0:
            raise AnalysisError(f"{rel}: binary: count `{nm}` not bound by the unpacking of the confusion matrix")
        counts[nm] = e0[nm]
    # R04.d orientation: ((TN, FP), (FN, TP)) = conf_mat  <=> TN=cm[0][0], FP=cm[0][1], FN=cm[1][0], TP=cm[1][1]
    want_pos = {"TN": (0, 0), "FP": (0, 1), "FN": (1, 0), "TP": (1, 1)}
    for nm, (i, j) in want_pos.items():
        w = ('call', f'getitem[{j}]', (('call', f'getitem[{i}]', (('sym', 'cm'),)),))
        rep.check(counts[nm] == w, "R04.d", rel, "binary", f"{nm} = conf_mat[{i}][{j}] (rows observed, columns forecast)",
                  f"bound to {show(counts[nm])}", line=f.lineno)
    cn = Canon()
    possyms = {str(cn.ratio(counts[nm]).n).strip() for nm in counts}
    refenv = dict(counts)
    seen = {}
    ncmp = 0
    for env_, conds, ret in paths:
        # the first returned name is the scores dict
        rv = ret.value
        nm = rv.elts[0].id if isinstance(rv, ast.Tuple) and isinstance(rv.elts[0], ast.Name) else None
        if nm is None or "@dict:" + nm not in env_:
            raise AnalysisError(f"{rel}: binary: scores dictionary literal not found")
        dnode, denv = env_["@dict:" + nm]
        for k, v in zip(dnode.keys, dnode.values):
            key = const_value(k)
            if key not in BINARY_REF:
                continue
            try:
                got = cn.ratio(fe.b(v, denv))
                want = cn.ratio(ExprBuilder(ra, rc).build(ast.parse(BINARY_REF[key], mode="eval").body, refenv))
            except Undecided as ex:
                rep.undecided("R04.b", rel, "binary", f"score '{key}'", str(ex), line=v.lineno)
                continue
            isnan = got == Ratio.sym('nan')
            # guards governing this key on this path: the conds under which the variable was (not) assigned
            seen.setdefault(key, {"def": None, "nan_paths": 0, "ok": True, "line": v.lineno})
            if isnan:
                seen[key]["nan_paths"] += 1
            else:
                ncmp += 1
                if not got == want:
                    seen[key]["ok"] = False
                    seen[key]["got"] = show(fe.b(v, denv))[:120]
    for key, st in sorted(seen.items()):
        rep.check(st["ok"], "R04.b", rel, "binary", f"score '{key}' == {BINARY_REF[key]}",
                  f"computed as {st.get('got', '')}", line=st["line"])
    rep.floor("binary scores compared", len(seen), 14)
    # R04.c guards: every `if` test in binary (except the shape check) must hold when the four counts are positive
    e_last = paths[0][0]
    tests = []
    for s in ast.walk(f):
        if isinstance(s, ast.If) and not any(isinstance(x, ast.Raise) for x in s.body):
            tests.append(s)
    for s in tests:
        # environment just before the test: rebuild by walking top-level statements up to it
        env_b = dict(env)
        for st in f.body:
            if st is s:
                break
            if isinstance(st, ast.Assign):
                try:
                    v = fe.b(st.value, env_b)
                except Undecided:
                    continue
                for t in st.targets:
                    fe.bind(t, v, env_b)
        target = [x.targets[0].id for x in s.body if isinstance(x, ast.Assign) and isinstance(x.targets[0], ast.Name)]
        label = f"guard of {', '.join(target) or '?'}: `{ast.unparse(s.test)}`"
        conj = s.test.values if isinstance(s.test, ast.BoolOp) and isinstance(s.test.op, ast.And) else [s.test]
        bad = []
        und = None
        for c in conj:
            if not (isinstance(c, ast.Compare) and len(c.ops) == 1):
                und = f"guard form {ast.unparse(c)}"
                break
            try:
                a, b = cn.ratio(fe.b(c.left, env_b)), cn.ratio(fe.b(c.comparators[0], env_b))
            except Undecided as ex:
                und = str(ex)
                break
            op = c.ops[0]
            d = (a - b) if isinstance(op, (ast.Gt, ast.GtE)) else (b - a) if isinstance(op, (ast.Lt, ast.LtE)) else None
            if d is None:
                und = "comparison operator"
                break
            if not positive_ratio(d, possyms):
                bad.append(ast.unparse(c))
        if und:
            rep.undecided("R04.c", rel, "binary", label, und, line=s.lineno)
        else:
            rep.check(not bad, "R04.c", rel, "binary", label,
                      f"`{' and '.join(bad)}` does not hold for every table with four positive counts: the score is left NaN on part of its domain", line=s.lineno)
    # ---------------- confusion matrix --------------------------------------------------------------------------------------------
    cmf = mod.func("confusion_matrix")
    ct = [n for n in ast.walk(cmf) if isinstance(n, ast.Call) and dotted(n.func) == "pd.crosstab"]
    okct = len(ct) == 1 and [ast.unparse(a) for a in ct[0].args[:2]] == ["obs", "sim"]
    rep.check(okct, "R04.d", rel, "confusion_matrix", "pd.crosstab(obs, sim): rows observed, columns forecast", ast.unparse(ct[0]) if ct else "", line=cmf.lineno)
    loop = [n for n in ast.walk(cmf) if isinstance(n, ast.For) and "range(ncat)" in ast.unparse(n.iter)]
    addcol = addrow = False
    if loop:
        for s in ast.walk(loop[0]):
            if isinstance(s, ast.If) and isinstance(s.test, ast.Compare) and isinstance(s.test.ops[0], ast.NotIn):
                where = ast.unparse(s.test.comparators[0])
                tgt = [ast.unparse(x.targets[0]).replace(" ", "") for x in s.body if isinstance(x, ast.Assign)]
                var = ast.unparse(s.test.left)
                if where.endswith(".columns") and f"cm.loc[:,{var}]" in tgt:
                    addcol = True
                if where.endswith(".index") and f"cm.loc[{var},:]" in tgt:
                    addrow = True
    rep.check(addcol and addrow, "R04.d", rel, "confusion_matrix", "padding adds the missing column and the missing row of every category below ncat",
              f"column added: {addcol}, row added: {addrow}", line=cmf.lineno)
    reorder = [ast.unparse(n.value).replace(" ", "") for n in ast.walk(cmf) if isinstance(n, ast.Assign) and isinstance(n.targets[0], ast.Name)
               and n.targets[0].id == "cm" and isinstance(n.value, (ast.Subscript, ast.Call))]
    rcol = any(x in ("cm.loc[:,np.arange(ncat)]",) or "sort_index(axis=1)" in x or ("reindex" in x and "columns" in x) for x in reorder)
    rrow = any(x in ("cm.loc[np.arange(ncat),:]",) or x.endswith("sort_index()") or "sort_index(axis=0)" in x or ("reindex" in x and "index" in x) for x in reorder)
    rep.check(rcol and rrow, "R04.d", rel, "confusion_matrix", "padded table re-ordered along both axes (categories ascending)",
              f"columns re-ordered: {rcol}, rows re-ordered: {rrow}", line=cmf.lineno)
    return EXPLANATION


def ens_prepared(f):
    """the `ens` expression handed to __check_ensemble_data in corr: atleast_2d + conditional transpose is modelled as an
    opaque preparation of the argument (its correctness is a shape question, not a formula one)"""
    return ('sym', '?loop:ens') if False else ENS_SYM


ENS_SYM = ('sym', 'ens')
