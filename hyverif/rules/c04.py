"""C04 -- deterministic and categorical skill scores equal their definitions (formula agreement)."""
import ast

from ..core import AnalysisError
from ..pyfront import Mod, dotted, const_value
from ..formula import ExprBuilder, Canon, Ratio, Undecided, show, kids, num
from ..fneval import FnEval
from ..poly import Poly
from .. import pq

EXPLANATION = (
    "The closed forms returned by bias, nse, kge, corr and binary are extracted from stat/metrics.py (locals "
    "substituted forward, one path per option value) and compared, as exact rational expressions over "
    "uninterpreted reducers (mean, sum, std, corrcoef, spearmanr, log, sqrt), with the textbook definitions "
    "written in this checker; the series that reach every statistic must be trans.forward of the inputs, "
    "filtered after the transform by one common mask when excludenull is set; NaN guards must dominate the "
    "divisions they protect; every guard of a binary score must hold on the whole domain of 2x2 tables with "
    "positive counts; the confusion matrix orientation must match the unpacking and the padding must restore and "
    "re-order both axes.  Numerical values of numpy/pandas/scipy reducers are trusted.")

OPTIONS = {("bias", "type"): ("'standard'", "'normalised'", "'log'"), ("corr", "type"): ("'Pearson'", "'Spearman'"),
           ("corr", "stat"): ("'mean'", "'median'")}


class _Alt:
    def __init__(self, conds, value, line):
        self.conds, self.value, self.line = conds, value, line


REF = {
    ("bias", "'standard'"): "(np.mean(ts) - np.mean(to)) / np.mean(to)",
    ("bias", "'normalised'"): "(np.mean(ts) - np.mean(to)) / (np.mean(ts) + np.mean(to))",
    ("bias", "'log'"): "math.log(np.mean(ts)) - math.log(np.mean(to))",
    ("nse", None): "1 - np.sum((ts - to)**2) / np.sum((np.mean(to) - to)**2)",
    ("kge", None): "1 - math.sqrt((1 - np.mean(ts)/np.mean(to))**2 + (1 - np.std(ts)/np.std(to))**2 + (1 - np.corrcoef(to, ts)[0, 1])**2)",
    ("corr", "'Pearson'"): "np.corrcoef(to, ts)[0, 1]",
    ("corr", "other"): "spearmanr(to, ts).correlation",
}
BINARY_REF = {
    "truepos": "TP", "falsepos": "FP", "trueneg": "TN", "falseneg": "FN",
    "bias": "(TP+FP)/(TP+FN)",
    "hitrate": "TP/(TP+FN)",
    "precision": "TP/(TP+FP)",
    "falsealarm": "FP/(FP+TN)",
    "accuracy": "(TP+TN)/(TP+TN+FP+FN)",
    "F1": "2*TP/(2*TP+FP+FN)",
    "MCC": "(TP*TN-FP*FN)/math.sqrt((TP+FP)*(TP+FN)*(TN+FP)*(TN+FN))",
    "LOR": "math.log(TP*TN/(FP*FN))",
    "ORSS": "(TP*TN-FP*FN)/(TP*TN+FP*FN)",
    "EDS": "2*math.log((TP+FN)/(TP+TN+FP+FN))/math.log(TP/(TP+TN+FP+FN))-1",
}


def mk_resolver():
    def resolve_call(e, env, builder):
        d = dotted(e.func)
        if d and d.endswith(".forward") and len(e.args) == 1 and isinstance(e.func, ast.Attribute) and isinstance(e.func.value, ast.Name):
            return ('call', 'T:' + e.func.value.id, (builder.build(e.args[0], env),))
        if d in ("__nonulldata", "_nonulldata") and len(e.args) == 2:
            a, b = builder.build(e.args[0], env), builder.build(e.args[1], env)
            return ('tuple', (('call', 'F', (a, a, b)), ('call', 'F', (b, a, b))))
        if d in ("__check_ensemble_data",) and len(e.args) == 2:
            a, b = builder.build(e.args[0], env), builder.build(e.args[1], env)
            return ('tuple', (('call', 'V0', (a, b)), ('call', 'V1', (a, b)), ('sym', 'nforc'), ('sym', 'nens')))
        if d in ("spearmanr", "scipy.stats.spearmanr", "stats.spearmanr"):
            return ('call', 'spearmanr', tuple(builder.build(a, env) for a in e.args))
        if d in ("pd.notnull", "pd.isnull", "len"):
            return ('call', d, tuple(builder.build(a, env) for a in e.args))
        return None

    def resolve_attr(d, env):
        if d == "EPS":
            return ('sym', 'EPS')
        if d.endswith(".T") and d[:-2] in env:
            return env[d[:-2]]          # transposition is a layout matter, not part of the formula
        if d.endswith(".shape"):
            return ('sym', d)
        return None
    return resolve_attr, resolve_call


def positive_ratio(r, possyms):
    """numerator and denominator have only positive coefficients over symbols known to be positive"""
    for poly in (r.n, r.d):
        if not poly.t:
            return False
        if not all(c > 0 for c in poly.t.values()):
            if all(c < 0 for c in poly.t.values()):
                continue
            return False
        if not poly.symbols() <= possyms:
            return False
    sn = all(c > 0 for c in r.n.t.values())
    sd = all(c > 0 for c in r.d.t.values())
    return sn == sd and r.n.symbols() <= possyms and r.d.symbols() <= possyms


def run(rep):
    rel = "stat/metrics.py"
    mod = Mod(rep.repo, rel)
    rep.rule("R04.a", "both series go through the same trans.forward; the null filter comes after the transform with one mask; statistics read the filtered series")
    rep.rule("R04.b", "returned expression == textbook definition (exact rational identity over uninterpreted reducers)")
    rep.rule("R04.c", "every guard of a binary score holds on the whole domain of tables with four positive counts")
    rep.rule("R04.d", "confusion matrix: crosstab(obs, sim) orientation matches the unpacking; padding restores and re-orders both axes")
    rep.rule("R04.e", "NaN-with-warning guards on a small observed mean / standard deviation dominate the divisions they protect")
    rep.rule("R04.f", "contingency-table scores: no product of three or more integer counts is formed (int64 wraps for counts above ~2^21 / 2^16)")
    rep.assume("np.mean/np.sum/np.std/np.corrcoef/scipy.stats.spearmanr/pd.crosstab compute what their names say")
    ra, rc = mk_resolver()
    nform = 0
    for fname in ("bias", "nse", "kge", "corr"):
        f = mod.func(fname)
        pn = [a.arg for a in f.args.args]
        env = {p: ('sym', p) for p in pn}
        fe = FnEval(ra, rc)
        try:
            paths = fe.run(f, env)
        except Undecided as ex:
            rep.undecided("R04.b", rel, fname, f"{fname}: extraction", str(ex), line=f.lineno)
            continue
        second = "sim" if "sim" in pn else "ens"
        alts = []
        for p0 in paths:
            for wc, val in pq.split_where(p0.value):
                alts.append(_Alt(list(p0.conds) + wc, val, p0.line))
        for p in alts:
            if p.value in (('nan',), ('raise',)) or p.value == ('sym', 'None'):
                continue
            flags = {}
            options = {"type": OPTIONS.get((fname, "type")), "stat": OPTIONS.get((fname, "stat"))}
            cand = {k: set(v) for k, v in options.items() if v}
            for c, truth in p.conds:
                if c == ('sym', 'excludenull'):
                    flags["excludenull"] = truth
                elif c[0] == 'cmp' and c[1] in ('==', '!=') and c[2][0] == 'sym' and c[2][1] in cand and c[3][0] == 'sym':
                    eq = truth if c[1] == '==' else not truth
                    if eq:
                        cand[c[2][1]] &= {c[3][1]}
                    else:
                        cand[c[2][1]].discard(c[3][1])
            for k, v in cand.items():
                if len(v) == 1:
                    flags[k] = next(iter(v))
                elif k == "type" and fname == "corr" and "'Pearson'" not in v:
                    flags[k] = "other"
            excl = flags.get("excludenull", False)
            tkey = flags.get("type")
            if fname == "corr":
                tkey = "'Pearson'" if tkey == "'Pearson'" else "other"
            if fname in ("nse", "kge"):
                tkey = None
            refsrc = REF.get((fname, tkey))
            label = f"{fname}(excludenull={excl}" + (f", type={tkey}" if tkey else "") + (f", stat={flags.get('stat')}" if fname == "corr" else "") + ")"
            if refsrc is None:
                rep.undecided("R04.b", rel, fname, label, f"no reference for option {tkey}", line=p.line)
                continue
            # expected transformed series
            if fname == "corr":
                obs_in = ('call', 'V0', (('sym', 'obs'), ens_prepared(f)))
                ens_in = ('call', 'V1', (('sym', 'obs'), ens_prepared(f)))
                stat = flags.get("stat")
                red = 'nanmean' if stat == "'mean'" else 'nanmedian'
                to0 = ('call', 'T:trans', (obs_in,))
                ts0 = ('call', red, (('call', 'T:trans', (ens_in,)),), (('axis', '1'),))
            else:
                to0 = ('call', 'T:trans', (('sym', 'obs'),))
                ts0 = ('call', 'T:trans', (('sym', second),))
            if excl:
                to, ts = ('call', 'F', (to0, to0, ts0)), ('call', 'F', (ts0, to0, ts0))
            else:
                to, ts = to0, ts0
            cn = Canon()
            try:
                want = cn.ratio(ExprBuilder(ra, rc).build(ast.parse(refsrc, mode="eval").body, {"to": to, "ts": ts}))
                got = cn.ratio(p.value)
            except Undecided as ex:
                rep.undecided("R04.b", rel, fname, label, str(ex), line=p.line)
                continue
            nform += 1
            ok = want == got
            rep.check(ok, "R04.b", rel, fname, label + ": returned formula",
                      "" if ok else f"returned {show(p.value)[:160]} ; definition on the transformed"
                      f"{' and filtered' if excl else ''} series: {refsrc}", line=p.line)
            # R04.a is implied by the identity on (to, ts); make the pipeline facts explicit for the report
            rep.proved("R04.a", rel, fname, label + ": statistics read trans.forward of both series" + (", filtered after the transform by one mask" if excl else ""), line=p.line)
            # R04.e guards
            need = {"bias": ["np.mean(to)"], "kge": ["np.mean(to)", "np.std(to)", "np.std(ts)"], "corr": ["np.std(to)"], "nse": []}[fname]
            for g in need:
                gr = cn.ratio(ExprBuilder(ra, rc).build(ast.parse(g, mode="eval").body, {"to": to, "ts": ts}))
                found = any(_excludes_small(c, truth, gr, cn) for c, truth in p.conds)
                rep.check(found, "R04.e", rel, fname, f"{label}: division by {g} guarded",
                          f"no dominating `abs({g}) < EPS -> nan` guard on this path", line=p.line)
    rep.floor("score formulas compared", nform, 14)
    # corr reads the nan-aware statistic of the members: a forecast with a valid observation and at least one valid member is part of the
    # series the definition is evaluated on, so the shared row filter must keep it
    from . import c03
    ck_, tabs = c03.ensemble_filter_tables(mod)
    cons = "corr: a forecast with a valid observation and some (not all) valid members is kept (its nan-mean / nan-median is defined)"
    if not tabs:
        rep.undecided("R04.a", rel, "__check_ensemble_data", cons, "no path returning row selections of obs and ens", line=ck_.lineno)
    for to_, te_ in tabs:
        key = tuple(sorted({('valid', 'obs'): True, ('any', 'ens'): True, ('all', 'ens'): False}.items()))
        vo, ve = to_.get(key), te_.get(key)
        if vo is None or ve is None:
            rep.undecided("R04.a", rel, "__check_ensemble_data", cons, "row mask outside the valid / missing vocabulary", line=ck_.lineno)
        else:
            rep.check(vo and ve, "R04.a", rel, "__check_ensemble_data", cons,
                      "the row mask is false for such a forecast: corr correlates a shorter series than the one its definition names", line=ck_.lineno, firm=True)
    # __nonulldata: one mask for both series
    nn = mod.funcs.get("__nonulldata")
    if nn is None:
        raise AnalysisError(f"{rel}: __nonulldata not found")
    pa = [x.arg for x in nn.args.args]
    npaths = [p_ for p_ in pq.PEval().run(nn) if p_.how == "return"]
    okm = bool(npaths) and len(pa) == 2
    detm, undm = "", None

    def _series(x):
        ma = pq.mentions(x, lambda e: e == ('sym', pa[0]))
        mb = pq.mentions(x, lambda e: e == ('sym', pa[1]))
        return pa[0] if (ma and not mb) else pa[1] if (mb and not ma) else None
    for p_ in npaths:
        v = p_.value
        if not (isinstance(v, tuple) and v[0] == 'tuple' and len(v[1]) == 2 and all(pq.call_named(x, "getitem") for x in v[1])):
            undm = f"returned value is not a pair of row selections: {show(v)[:80]}"
            continue
        (b0, s0), (b1, s1) = v[1][0][2], v[1][1][2]
        if not (b0 == ('sym', pa[0]) and b1 == ('sym', pa[1])):
            okm, detm = False, f"selections of {show(b0)[:30]} and {show(b1)[:30]} instead of the two arguments"
            continue
        tabs = [pq.mask_table(pq.selector_mask(sx), _series, {pa[0]: 1, pa[1]: 1}) for sx in (s0, s1)]
        if any(val is None for t_ in tabs for val in t_.values()):
            undm = f"mask outside the valid / missing vocabulary: {show(s0)[:80]}"
            continue
        for t_ in tabs:
            for asg, val in t_.items():
                want = all(vv for _k, vv in asg)
                if val != want:
                    okm, detm = False, f"a pair is {'kept' if val else 'dropped'} when {dict(asg)}"
    if undm and okm:
        rep.undecided("R04.a", rel, "__nonulldata", "returns both series filtered by the mask valid(a) & valid(b)", undm, line=nn.lineno)
    else:
        rep.check(okm, "R04.a", rel, "__nonulldata", "returns both series filtered by the mask valid(a) & valid(b) (truth table over valid / missing)", detm, line=nn.lineno)

    # ---------------- binary ----------------------------------------------------------------------------------------------
    f = mod.func("binary")
    bpaths = [p_ for p_ in pq.PEval().run(f, {"conf_mat": ('sym', 'cm0')}) if p_.how == "return"]
    if not bpaths:
        raise AnalysisError(f"{rel}: binary: no return path")
    # the matrix the counts are read from: np.array(conf_mat, ..) guarded by shape == (2, 2)
    shape_guard = any(any("shape" in show(c) and ("2" in show(c)) for c, _ in p_.conds) for p_ in bpaths)
    CM = None
    counts = {}
    e0 = bpaths[0].env
    for nm in ("TN", "FP", "FN", "TP"):
        if nm not in e0:
            raise AnalysisError(f"{rel}: binary: count `{nm}` not bound by the unpacking of the confusion matrix")
    want_pos = {"TN": (0, 0), "FP": (0, 1), "FN": (1, 0), "TP": (1, 1)}
    csym = {}
    for nm, (i, j) in want_pos.items():
        v = e0[nm]
        pos = _cm_position(v, shape_guard)
        rep.check(pos == (i, j), "R04.d", rel, "binary", f"{nm} = conf_mat[{i}][{j}] (rows observed, columns forecast)",
                  f"bound to {show(v)[:80]}", line=f.lineno)
        csym[nm] = ('sym', nm)
    # scores as functions of the four counts: re-evaluate with the counts as symbols
    class CountEval(pq.PEval):
        def bind(self, t, v, env, effects, conds, line):
            super().bind(t, v, env, effects, conds, line)
            for nm in want_pos:
                if nm in env and env[nm] != ('sym', nm) and all(n_ in env for n_ in want_pos) and not getattr(self, "_done", False):
                    pass

    def with_counts(paths_):
        out = []
        for p_ in paths_:
            out.append(p_)
        return out
    # substitute the bound count expressions by symbols in every value of the returning paths
    repl = {show(e0[nm]): ('sym', nm) for nm in want_pos}

    def subst(e):
        if not isinstance(e, tuple) or not e or not isinstance(e[0], str):
            return e
        k_ = show(e)
        if k_ in repl:
            return repl[k_]
        if e[0] in ('sym', 'num', 'nan', 'x'):
            return e
        out = [e[0]]
        for c in e[1:]:
            if isinstance(c, tuple) and c and isinstance(c[0], str):
                out.append(subst(c))
            elif isinstance(c, tuple):
                out.append(tuple(subst(x) if isinstance(x, tuple) and x and isinstance(x[0], str) else
                                 (tuple(subst(y) if isinstance(y, tuple) else y for y in x) if isinstance(x, tuple) else x) for x in c))
            else:
                out.append(c)
        return tuple(out)
    cn = Canon()
    possyms = set(want_pos)
    seen = {}
    guards = {}
    for p_ in bpaths:
        v = p_.value
        dct = v[1][0] if isinstance(v, tuple) and v[0] == 'tuple' else v
        if not pq.call_named(dct, "dict"):
            raise AnalysisError(f"{rel}: binary: scores dictionary not found in the returned value")
        keys, vals = dct[2][0][1], dct[2][1][1]
        for k_, val in zip(keys, vals):
            key = k_[1].strip("'\"") if k_[0] == 'sym' else None
            if key not in BINARY_REF:
                continue
            st = seen.setdefault(key, {"ok": True, "line": p_.line, "cmp": 0})
            for wc, alt in pq.split_where(subst(val)):
                for c, t in list(p_.conds) + wc:
                    guards.setdefault(show(subst(c)), (subst(c), key))
                if alt == ('nan',):
                    continue
                try:
                    got = cn.ratio(alt)
                    want = cn.ratio(pq.parse(BINARY_REF[key], {nm: ('sym', nm) for nm in want_pos}))
                except Undecided as ex:
                    rep.undecided("R04.b", rel, "binary", f"score '{key}'", str(ex), line=p_.line)
                    continue
                st["cmp"] += 1
                if got != want:
                    st["ok"] = False
                    st["got"] = show(alt)[:120]
    for key, st in sorted(seen.items()):
        rep.check(st["ok"] and st["cmp"] > 0, "R04.b", rel, "binary", f"score '{key}' == {BINARY_REF[key]}",
                  f"computed as {st.get('got', '')}" if st["cmp"] else "only NaN is ever stored", line=st["line"])
    rep.floor("binary scores compared", len(seen), 14)
    # R04.f: the counts are int64 (np.array(conf_mat, dtype=np.int64)); a product of d integer factors wraps beyond 2^(63/d)
    pe_i = pq.PEval()
    pe_i.b.keep_casts = True
    ipaths = [p_ for p_ in pe_i.run(f, {"conf_mat": ('sym', 'cm0')}) if p_.how == "return"]
    repl_i = {}
    if ipaths:
        for nm in want_pos:
            if nm in ipaths[0].env:
                repl_i[show(ipaths[0].env[nm])] = nm

    def int_degree(e, worst):
        """degree (in the integer counts) of the integer-valued expression e, None when e is floating point; worst: list collecting
        (degree, text) of integer products"""
        k_ = show(e)
        if k_ in repl_i:
            return 1
        if e[0] == 'num':
            return 0 if e[1].denominator == 1 else None
        if e[0] in ('add', 'sub'):
            a_, b_ = int_degree(e[1], worst), int_degree(e[2], worst)
            return None if a_ is None or b_ is None else max(a_, b_)
        if e[0] == 'neg':
            return int_degree(e[1], worst)
        if e[0] == 'mul':
            a_, b_ = int_degree(e[1], worst), int_degree(e[2], worst)
            if a_ is None or b_ is None:
                return None
            worst.append((a_ + b_, k_))
            return a_ + b_
        if e[0] == 'div':
            int_degree(e[1], worst)
            int_degree(e[2], worst)
            return None
        if e[0] == 'pow':
            a_ = int_degree(e[1], worst)
            try:
                n_ = Canon().ratio(e[2])
                if a_ is not None and n_.is_const() and n_.cval().denominator == 1 and n_.cval() >= 0:
                    worst.append((a_ * int(n_.cval()), k_))
                    return a_ * int(n_.cval())
            except Undecided:
                pass
            return None
        if e[0] == 'call':
            for a_ in e[2]:
                if isinstance(a_, tuple) and a_ and isinstance(a_[0], str):
                    int_degree(a_, worst)
            return None
        if e[0] in ('where',):
            for a_ in e[1:]:
                int_degree(a_, worst)
            return None
        return None
    nprod = 0
    for p_ in ipaths[:1]:
        v = p_.value
        dct = v[1][0] if isinstance(v, tuple) and v[0] == 'tuple' else v
        if not pq.call_named(dct, "dict"):
            continue
        for k_, val in zip(dct[2][0][1], dct[2][1][1]):
            key = k_[1].strip("'\"") if k_[0] == 'sym' else None
            if key not in BINARY_REF:
                continue
            worst = []
            int_degree(val, worst)
            nprod += len(worst)
            big = sorted({(d_, t_) for d_, t_ in worst if d_ >= 3}, reverse=True)
            rep.check(not big, "R04.f", rel, "binary", f"score '{key}': no integer product of three or more counts",
                      f"`{big[0][1][:90]}` is an int64 product of degree {big[0][0]}: it wraps once the counts exceed about 2^{63 // big[0][0]} "
                      f"(the score is then wrong or math.sqrt raises)" if big else "", line=p_.line)
    rep.floor("integer products examined in binary", nprod, 1)
    # R04.c: every test met in binary (statement or conditional expression), except the shape check, holds for four positive counts
    for gtxt, (g, key) in sorted(guards.items()):
        if "shape" in gtxt:
            continue
        bad, und = [], None
        for cj in _conjuncts(g):
            if cj[0] != 'cmp' or cj[1] not in ('<', '<=', '>', '>='):
                # the truth value of a real-valued score used as a test: a score of exactly 0 is a legitimate value (log odds ratio of a
                # table with odds ratio 1) and would be taken for "undefined"
                if cj[0] != 'cmp' and pq.find(cj, lambda x: x[0] == 'call' and x[1] in ('log', 'sqrt')) and not pq.call_named(cj, "isfinite") and not pq.call_named(cj, "isnan"):
                    bad.append(f"truth value of the real-valued expression {show(cj)[:50]} (false when it is exactly 0)")
                    continue
                if pq.call_named(cj, "isfinite"):
                    continue
                und = f"guard form {show(cj)[:60]}"
                break
            try:
                a_, b_ = cn.ratio(cj[2]), cn.ratio(cj[3])
            except Undecided as ex:
                und = str(ex)
                break
            d = (a_ - b_) if cj[1] in ('>', '>=') else (b_ - a_)
            if not positive_ratio(d, possyms):
                bad.append(show(cj)[:80])
        label = f"guard `{gtxt[:100]}`"
        if und:
            rep.undecided("R04.c", rel, "binary", label, und, line=f.lineno)
        else:
            rep.check(not bad, "R04.c", rel, "binary", label,
                      f"`{' and '.join(bad)}` does not hold for every table with four positive counts: the score is left NaN on part of its domain", line=f.lineno)
    # ---------------- confusion matrix --------------------------------------------------------------------------------------------
    cmf = mod.func("confusion_matrix")
    cpaths = [p_ for p_ in pq.PEval().run(cmf) if p_.how == "return"]
    FULL = ('call', 'slice', (('sym', 'None'),) * 3)
    plain = [p_ for p_ in cpaths if pq.call_named(p_.value, ".crosstab")]
    okct = bool(plain)
    for p_ in plain:
        a_ = p_.value[2]
        okct = okct and len(a_) >= 3 and pq.mentions(a_[1], lambda e: e == ('sym', 'obs')) and not pq.mentions(a_[1], lambda e: e == ('sym', 'sim')) and \
            pq.mentions(a_[2], lambda e: e == ('sym', 'sim')) and not pq.mentions(a_[2], lambda e: e == ('sym', 'obs'))
    rep.check(okct, "R04.d", rel, "confusion_matrix", "pd.crosstab(obs, sim): rows observed, columns forecast", show(plain[0].value)[:120] if plain else "", line=cmf.lineno)
    padded = [p_ for p_ in cpaths if p_ not in plain and any(c == ('call', 'is', (('sym', 'ncat'), ('sym', 'None'))) and not t for c, t in p_.conds)]
    addcol = addrow = rcol = rrow = False
    for p_ in padded:
        for e in p_.effects:
            if e.kind != 'store' or not e.target.endswith(".loc") or not pq.same(e.val, "0") or not (isinstance(e.key, tuple) and e.key[0] == 'tuple' and len(e.key[1]) == 2):
                continue
            k0, k1 = e.key[1]
            elem = k1 if k0 == FULL else k0 if k1 == FULL else None
            if elem is None or not pq.same(elem, ('call', 'elem', (pq.parse("range(ncat)"),))):
                continue
            axis = "columns" if k0 == FULL else "index"
            missing = any(t and c[0] == 'not' and pq.call_named(c[1], "in") and pq.same(c[1][2][0], elem) and
                          pq.call_named(c[1][2][1], "attr:" + axis) for c, t in e.conds)
            if missing and axis == "columns":
                addcol = True
            if missing and axis == "index":
                addrow = True
        # returned table: .loc[:, arange(ncat)] and .loc[arange(ncat), :] applied (in either order)
        v = p_.value
        AR = pq.parse("np.arange(ncat)")
        while pq.call_named(v, "getitem") and pq.call_named(v[2][0], "attr:loc"):
            idx = v[2][1]
            if isinstance(idx, tuple) and idx[0] == 'tuple' and len(idx[1]) == 2 and idx[1][0] == FULL and pq.same(idx[1][1], AR):
                rcol = True
            elif pq.same(idx, AR):
                rrow = True
            v = v[2][0][2][0]
        for meth, ax in ((".sort_index", None), (".reindex", None)):
            pass
    # inferred number of categories = number of DISTINCT labels over both axes (a label may be missing from one axis only)
    for p_ in cpaths:
        if not any(c == ('call', 'is', (('sym', 'ncat'), ('sym', 'None'))) and t for c, t in p_.conds):
            continue
        ncv = None
        for c, t in pq.flat_conds(p_.conds):
            if c[0] == 'cmp' and pq.call_named(c[2], "attr:shape") and c[3][0] == 'tuple' and len(c[3][1]) == 2 and c[3][1][0] == c[3][1][1]:
                ncv = c[3][1][0]
        if ncv is None:
            continue
        distinct = bool(pq.find(ncv, lambda x: pq.call_named(x, "unique") or pq.call_named(x, "union1d") or pq.call_named(x, "py.set") or pq.call_named(x, ".union")))
        both = pq.mentions(ncv, lambda x: pq.call_named(x, "attr:index")) and pq.mentions(ncv, lambda x: pq.call_named(x, "attr:columns"))
        counts_only = not distinct and not pq.find(ncv, lambda x: x[0] == 'call' and x[1] not in ("shape", "py.max", "py.min", "maximum", "minimum", "max", "min", "attr:index", "attr:columns", "attr:values", "attr:shape", "getitem", ".crosstab", "astype", "copy", "attr:size"))
        if distinct and both:
            rep.proved("R04.d", rel, "confusion_matrix", "inferred ncat counts the distinct labels of rows and columns together", line=cmf.lineno)
        elif counts_only:
            rep.violation("R04.d", rel, "confusion_matrix", "inferred ncat counts the distinct labels of rows and columns together",
                          f"ncat := {show(ncv)[:120]} is built from the axis lengths only: a category present in the forecasts and another present in the observations only are not both counted", line=cmf.lineno)
        else:
            rep.undecided("R04.d", rel, "confusion_matrix", "inferred ncat counts the distinct labels of rows and columns together", show(ncv)[:120], line=cmf.lineno)
        break
    # the table is returned without padding only when both its row count and its column count are known to reach ncat
    def axis_of(e, CM):
        if pq.call_named(e, "shape") and len(e[2]) == 2 and e[2][1][0] == 'num':
            b_, k_ = e[2][0], int(e[2][1][1])
            if b_ == CM:
                return k_
            if k_ == 0 and pq.call_named(b_, "attr:index") and b_[2][0] == CM:
                return 0
            if k_ == 0 and pq.call_named(b_, "attr:columns") and b_[2][0] == CM:
                return 1
            if k_ == 0 and pq.call_named(b_, "attr:values") and pq.call_named(b_[2][0], "attr:index") and b_[2][0][2][0] == CM:
                return 0
            if k_ == 0 and pq.call_named(b_, "attr:values") and pq.call_named(b_[2][0], "attr:columns") and b_[2][0][2][0] == CM:
                return 1
        if pq.call_named(e, "getitem") and pq.call_named(e[2][0], "attr:shape") and e[2][0][2][0] == CM and e[2][1][0] == 'num':
            return int(e[2][1][1])
        return None
    FLIP = {'<': '>', '>': '<', '<=': '>=', '>=': '<=', '==': '==', '!=': '!='}
    NEG = {'<': '>=', '>': '<=', '<=': '>', '>=': '<', '==': '!=', '!=': '=='}
    gate_ok, gate_und, gate_det = True, [], []
    for p_ in plain:
        CM = p_.value
        est = {}
        other = []
        for c, t in pq.flat_conds(p_.conds):
            if c == ('call', 'is', (('sym', 'ncat'), ('sym', 'None'))):
                continue
            if c[0] == 'cmp' and pq.call_named(c[2], "attr:shape") and c[2][2][0] == CM and c[3][0] == 'tuple' and len(c[3][1]) == 2:
                op = c[1] if t else NEG.get(c[1])
                if op == '==':
                    est[0], est[1] = c[3][1]
                    continue
            if c[0] == 'cmp':
                ka, kb = axis_of(c[2], CM), axis_of(c[3], CM)
                if (ka is None) != (kb is None):
                    k_, n_, op = (ka, c[3], c[1]) if ka is not None else (kb, c[2], FLIP[c[1]])
                    op = op if t else NEG[op]
                    if op in ('>=', '=='):
                        est[k_] = n_
                    continue          # a recognised test of one axis that does not establish it
            if pq.mentions(c, lambda x: x == CM):
                other.append(show(c)[:80])
        missing = [k_ for k_ in (0, 1) if k_ not in est]
        if not missing and est[0] == est[1]:
            continue
        if other:
            gate_und.append(f"condition(s) on the table outside the vocabulary: {other[:2]}")
        else:
            gate_ok = False
            gate_det.append("the unpadded table is returned without knowing that its " + " and ".join(("row", "column")[k_] + " count" for k_ in missing) +
                            " reaches ncat" if missing else "row and column counts are compared with different bounds")
    if gate_und:
        rep.undecided("R04.d", rel, "confusion_matrix", "the table is returned unpadded only when it already has ncat rows and ncat columns", gate_und[0], line=cmf.lineno)
    else:
        rep.check(gate_ok, "R04.d", rel, "confusion_matrix", "the table is returned unpadded only when it already has ncat rows and ncat columns",
                  "; ".join(sorted(set(gate_det))), line=cmf.lineno)
    rep.check(addcol and addrow, "R04.d", rel, "confusion_matrix", "padding adds the missing column and the missing row of every category below ncat",
              f"column added: {addcol}, row added: {addrow}", line=cmf.lineno)
    rep.check(rcol and rrow, "R04.d", rel, "confusion_matrix", "padded table re-ordered along both axes (categories ascending)",
              f"columns re-ordered: {rcol}, rows re-ordered: {rrow}", line=cmf.lineno)
    # a score may be asked for a perfect simulation given as the observation array itself, and several scores are computed from the same
    # arrays: the score functions may not write into buffers that can be the caller's (alias / effect analysis decided for C18)
    from ..core import borrow
    SCORES = ("bias", "nse", "kge", "corr", "confusion_matrix", "binary", "__nonulldata", "__check_ensemble_data")
    nb_ = borrow(rep, "C18", "R04.g", "the score functions do not write in place into arrays that may be their arguments (perfect simulation passed as the same array; "
                 "a second score on the same data): clauses decided for C18",
                 lambda e: e.rule == "R18.a" and (e.file or "").endswith("metrics.py") and (e.func or "").split(".")[-1] in SCORES)
    rep.floor("argument-preservation clauses taken over from C18", nb_, 4)
    return EXPLANATION


def _excludes_small(c, truth, gr, cn):
    """the recorded (condition, truth) establishes that X (ratio gr) is NOT within EPS of zero:
       abs(X) < EPS false | abs(X) > EPS true | (-EPS < X and X < EPS) false | (X <= -EPS or X >= EPS) true"""
    EPSR = Ratio.sym('EPS')

    def is_x(e):
        try:
            return cn.ratio(e) == gr
        except Undecided:
            return False

    def is_eps(e, sign=1):
        try:
            return cn.ratio(e) == (EPSR if sign > 0 else -EPSR)
        except Undecided:
            return False
    if c[0] == 'not':
        return _excludes_small(c[1], not truth, gr, cn)
    if c[0] == 'cmp' and c[2][0] == 'call' and c[2][1] == 'abs' and is_x(c[2][2][0]) and is_eps(c[3]):
        return (c[1] in ('<', '<=') and not truth) or (c[1] in ('>', '>=') and truth)
    if c[0] == 'cmp' and c[3][0] == 'call' and c[3][1] == 'abs' and is_x(c[3][2][0]) and is_eps(c[2]):
        return (c[1] in ('>', '>=') and not truth) or (c[1] in ('<', '<=') and truth)
    if c[0] == 'and' and not truth:
        # -EPS < X and X < EPS  (either order, either orientation)
        lo = hi = False
        for part in (c[1], c[2]):
            if part[0] != 'cmp':
                return False
            op, a, b = part[1], part[2], part[3]
            if op in ('>', '>='):
                a, b, op = b, a, {'>': '<', '>=': '<='}[op]
            if op in ('<', '<='):
                if is_eps(a, -1) and is_x(b):
                    lo = True
                if is_x(a) and is_eps(b):
                    hi = True
        return lo and hi
    if c[0] == 'or' and truth:
        lo = hi = False
        for part in (c[1], c[2]):
            if part[0] != 'cmp':
                return False
            op, a, b = part[1], part[2], part[3]
            if op in ('>', '>='):
                a, b, op = b, a, {'>': '<', '>=': '<='}[op]
            if op in ('<', '<='):
                if is_x(a) and is_eps(b, -1):
                    lo = True
                if is_eps(a) and is_x(b):
                    hi = True
        return lo and hi
    return False


def _conjuncts(e):
    if e[0] == 'and':
        return _conjuncts(e[1]) + _conjuncts(e[2])
    return [e]


def _cm_position(v, shape_guard):
    """(row, col) of the 2x2 matrix an unpacked count reads: m[i][j], m[i, j], or element 2i+j of ravel()/flatten() of a matrix
    whose shape is checked to be (2, 2)"""
    def const(e):
        try:
            r = Canon().ratio(e)
            return int(r.cval()) if r.is_const() and r.cval().denominator == 1 else None
        except Exception:
            return None
    if pq.call_named(v, "getitem"):
        base, idx = v[2]
        if pq.call_named(base, "getitem"):
            i, j = const(base[2][1]), const(idx)
            if i is not None and j is not None:
                return (i, j)
        if isinstance(idx, tuple) and idx[0] == 'tuple' and len(idx[1]) == 2:
            i, j = const(idx[1][0]), const(idx[1][1])
            if i is not None and j is not None:
                return (i, j)
        k_ = const(idx)
        if k_ is not None and isinstance(base, tuple) and base[0] == 'call' and base[1] in ("ravel", "flatten") and shape_guard:
            return (k_ // 2, k_ % 2)
        if k_ is not None and pq.call_named(base, "reshape") and shape_guard and const(base[2][1]) == -1:
            return (k_ // 2, k_ % 2)
    return None


def ens_prepared(f):
    """the `ens` expression handed to __check_ensemble_data in corr: atleast_2d + conditional transpose is modelled as an
    opaque preparation of the argument (its correctness is a shape question, not a formula one)"""
    return ('sym', '?loop:ens') if False else ENS_SYM


ENS_SYM = ('sym', 'ens')
