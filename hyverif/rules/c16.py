"""C16 -- catchment-grid intersection and Voronoi weights conserve area (structural clauses).

Kernels are read after normalisation (cnorm) and their loop bodies evaluated symbolically (ceval / cq); the wrappers
are evaluated symbolically (pq) with the kernel's output buffers replaced by symbols named after the kernel
parameters.  No clause compares source text."""
import ast

from ..core import AnalysisError
from ..cfront import strip, text
from .. import ckern, xlayer, pyxread, cq, pq, cnorm, ceval
from ..ceval import find_all, loop_parts, body_stmts, loop_var
from ..formula import Canon, show, num

EXPLANATION = (
    "c_intersect's step is evaluated symbolically for its three cases: a catchment-cell centre outside the coarse "
    "grid (negative cell number or error) contributes nothing; a centre in an already listed cell adds exactly the "
    "area factor to that cell's weight; a centre in a new cell appends the cell with weight = area factor and advances "
    "the counter by one; the area factor is (csz_area/csz)^2 and the counter is what the wrapper truncates with -- so "
    "each catchment cell is counted once, in one grid cell.  The wrapper passes the cell centres of the (filled) area, "
    "the grid geometry in the kernel's order, zeroed output vectors of the grid's size, and scatters the weights at "
    "row - row_start, col - col_start of a sub-grid spanning min..max row and column, recorded as parent bookkeeping.  "
    "c_voronoi: weights zeroed, every catchment cell adds 1 to the point with the strictly smallest Euclidean distance "
    "(lowest index wins ties, the distance is a monotone function of dx^2+dy^2 compared with itself), weights divided "
    "by the number of cells -- hence non-negative and summing to 1.  Area conservation as a number is not computed.")

AF = "(csz_area/csz)*(csz_area/csz)"


def kernel_site(sites, name):
    st = [s for s in sites if s.shim.name == name]
    if len(st) != 1:
        raise AnalysisError(f"gis/grid.py: {name} call site not found")
    return st[0]


def run_with_havoc(f, call, argname):
    """paths of wrapper f; after the kernel call every freshly allocated array argument is the symbol K.<kernel parameter>"""
    before = {}

    class Hook(pq.PEval):
        def ex(self, node, env):
            v = super().ex(node, env)
            if any(n is call for n in ast.walk(node)):
                for a in call.args:
                    if isinstance(a, ast.Name) and a.id in argname:
                        cur = env.get(a.id)
                        if isinstance(cur, tuple) and cur and cur[0] == 'call' and cur[1] in ('zeros', 'full', 'empty', 'ones'):
                            before[argname[a.id]] = cur
                            env[a.id] = ('sym', 'K.' + argname[a.id])
            return v
    h = Hook()
    return h.run(f), before


def args_at_call(f, site):
    """kernel parameter -> symbolic value of the argument, merged over the paths that reach the call"""
    return pq.call_arguments(f, site.call, list(site.shim.params))


def run(rep):
    rep.rule("R16.a", "c_intersect step: outside -> nothing; listed cell -> weight += factor; new cell -> appended with weight = factor, counter + 1; factor = (csz_area/csz)^2")
    rep.rule("R16.b", "wrapper: centres of the catchment cells, zeroed outputs of grid size, truncation with the kernel's count, weights scattered at (row-row_start, col-col_start) of the min..max sub-grid, parent bookkeeping")
    rep.rule("R16.c", "c_voronoi: zeroed weights, +1 to the strictly nearest point (same distance function on both sides of the comparison), division by the number of cells")
    rep.assume("distinct pointer parameters of a kernel do not overlap (the shims pass distinct ndarray buffers)")
    K = ckern.analyze(rep.repo)
    if K["fns"].get("c_intersect") is None or K["fns"].get("c_voronoi") is None:
        raise AnalysisError("gis/c_grid.c: c_intersect / c_voronoi not found")
    fi, fv = ckern.normalised(K, "c_intersect", rep.repo), ckern.normalised(K, "c_voronoi", rep.repo)
    file = fi["file"]
    rep.unit(f"{file}: c_intersect, c_voronoi (normalised); gis/grid.py: Catchment.intersect, voronoi")
    top = body_stmts(fi["body"])
    loops = [s for s in top if s.get("kind") in ("ForStmt", "WhileStmt") and cnorm.writes(s)[1] & {"weights", "idxcells"}]
    if len(loops) != 1:
        raise AnalysisError(f"{file}: c_intersect main loop not found")
    loop = loops[0]
    lr = cq.loop_range(loop, cq.preceding(top, loop))
    rep.check(cq.range_is(lr, "0", "nval-1"), "R16.a", file, "c_intersect", "every catchment cell is visited once", "", line=loop.get("_line"))
    iv = lr["var"] if lr else loop_var(loop)
    stm = body_stmts(loop_parts(loop)[3])
    ce = cq.evaluate(stm)
    post = cq.evaluate(top[top.index(loop) + 1:])
    npst = cq.stores(post, "npoints")
    cnt = None
    if len(npst) == 1 and npst[0].val[0] == 'sym' and cq.same_expr(npst[0].idx, "0"):
        cnt = npst[0].val[1]
    rep.check(cnt is not None, "R16.a", file, "c_intersect", "npoints[0] = the counter of distinct cells", repr(npst)[:200], line=fi["line"])
    if cnt is None:
        return EXPLANATION
    ini = [s for s in cq.preceding(top, loop) if s.get("kind") == "BinaryOperator" and s.get("opcode") == "=" and text(s["inner"][0]) == cnt and cq.same_expr(s["inner"][1], "0")]
    rep.check(bool(ini) and cnt not in cnorm.writes({"kind": "CompoundStmt", "inner": [s for s in cq.preceding(top, loop) if s not in ini]})[0],
              "R16.a", file, "c_intersect", "counter starts at 0", "", line=fi["line"])
    # the formulas are compared in exact real arithmetic, where a conversion to an integer type is the identity: none may occur in the kernel's
    # own floating-point computations (a cell-size ratio such as 0.3/0.1 = 2.9999999999999996 truncates to 2)
    for kn_ in ("c_intersect", "c_voronoi"):
        kfn = K["fns"].get(kn_)
        if kfn is None:
            continue
        trunc = find_all(kfn["body"], lambda n: n.get("castKind") == "FloatingToIntegral")
        rep.check(not trunc, "R16.a" if kn_ == "c_intersect" else "R16.c", file, kn_, "no floating-point value is truncated to an integer inside the kernel (weights and distances are computed in double)",
                  f"line {trunc[0].get('_line')}: `{text(trunc[0])[:60]}`" if trunc else "", line=(trunc[0].get("_line") if trunc else kfn["line"]))
    calls_ = find_all(loop, lambda n: n.get("kind") == "CallExpr" and text(n["inner"][0]) == "c_coord2cell")
    okc, cellname, scalar_cell = False, None, False
    if len(calls_) == 1:
        args = calls_[0]["inner"][1:]
        okc = len(args) == 8 and all(cq.same_expr(args[k_], w) for k_, w in enumerate(("nrows", "ncols", "xll", "yll", "csz", "1")))
        if okc:
            from ..cfront import strip as _strip
            a6, a7 = _strip(args[6]), _strip(args[7])
            scalar_cell = a7.get("kind") == "UnaryOperator" and a7.get("opcode") == "&" and _strip(a7["inner"][0]).get("kind") == "DeclRefExpr"
            cellname = text(a7["inner"][0]) if scalar_cell else text(args[7])
            in_place = a6.get("kind") == "UnaryOperator" and a6.get("opcode") == "&" and _strip(a6["inner"][0]).get("kind") == "ArraySubscriptExpr" and \
                text(_strip(a6["inner"][0])["inner"][0]).replace(" ", "") == "xy_area" and cq.same_expr(_strip(a6["inner"][0])["inner"][1], f"2*{iv}")
            def _addr_of_point(x):
                x = _strip(x)
                return x.get("kind") == "UnaryOperator" and x.get("opcode") == "&" and _strip(x["inner"][0]).get("kind") == "ArraySubscriptExpr" and \
                    text(_strip(x["inner"][0])["inner"][0]).replace(" ", "") == "xy_area" and cq.same_expr(_strip(x["inner"][0])["inner"][1], f"2*{iv}")
            if not in_place and a6.get("kind") == "DeclRefExpr" and a6.get("type", {}).get("qualType", "").rstrip().endswith("*"):
                # a pointer temporary set once in the iteration to the address of the point
                sets = find_all(loop, lambda n: n.get("kind") == "BinaryOperator" and n.get("opcode") == "=" and text(n["inner"][0]).strip() == text(a6).strip())
                in_place = len(sets) == 1 and _addr_of_point(sets[0]["inner"][1])
            if in_place:
                okc = True                   # the kernel reads the centre where it lies: &xy_area[2*i]
            else:
                xyname = text(args[6])
                xs = {show(e.idx): e for e in ce.effects if e.arr == xyname and e.op == "=" and not e.conds}
                okc = set(xs) >= {"0", "1"} and cq.same_expr(xs["0"].val, f"xy_area[2*{iv}]") and cq.same_expr(xs["1"].val, f"xy_area[2*{iv}+1]")
    rep.check(okc, "R16.a", file, "c_intersect", "point i = centre of catchment cell i, located in the coarse grid with c_coord2cell(grid geometry, 1, xy, cell)", "", line=loop.get("_line"))
    # the weights count the centres c_coord2cell places in each coarse cell: its half-open inside test and numbering (decided for C07) are
    # what makes a centre on the top / right edge of the coarse grid fall outside, and the weights add up to the overlap
    from ..core import borrow
    nb_ = borrow(rep, "C07", "R16.e", "c_intersect locates every cell centre with c_coord2cell: the kernel's inside test, numbering and -1 outside (clauses decided for C07)",
                 lambda e: (e.func or "") == "c_coord2cell")
    rep.floor("c_coord2cell clauses taken over from C07", nb_, 4)
    if not okc or cellname is None:
        return EXPLANATION
    CELL = cellname if scalar_cell else f"{cellname}[0]"
    alls = cq.stores(ce, "weights") + cq.stores(ce, "idxcells")
    oksk = bool(alls) and all(cq.excluded(e.conds, f"{CELL} < 0", True) or cq.holds(e.conds, f"{CELL} >= 0", True) or _neg_disj(e.conds, f"{CELL} < 0") for e in alls)
    rep.check(oksk, "R16.a", file, "c_intersect", "centres outside the grid (cell -1) or conversion errors contribute nothing", "", line=loop.get("_line"))
    srch = None
    for l in [s for s in stm if s.get("kind") == "ForStmt"]:
        sr = cq.search(l, cq.preceding(stm, l))
        if sr is not None:
            srch = sr
    oksr, okn, det = False, False, "search loop over the listed cells not recognised"
    if srch is not None and cq.same_expr(srch["lo"], "0") and cq.same_expr(srch["hi"], f"{cnt}-1"):
        kv = srch["var"]
        hit = f"idxcells[{kv}] == {CELL}"
        if srch["style"] == "break":
            okmatch = cq.holds(srch["match"], hit, True)
            found = srch["found_effects"]
        else:
            okmatch = cq.holds(srch["match"], hit, True)
            found = [e for e in alls if not e.loops and cq.found_after(srch, e.conds) is True]
        det = "; ".join(repr(e) for e in found)[:260]
        oksr = okmatch and len(found) == 1 and found[0].arr == "weights" and found[0].op == "+=" and cq.same_expr(found[0].idx, kv) and cq.same_expr(found[0].val, AF)
        new = [e for e in alls if not e.loops and cq.found_after(srch, e.conds) is False]
        byarr = {e.arr: e for e in new}
        okn = len(new) == 2 and set(byarr) == {"idxcells", "weights"} and all(e.op == "=" and cq.same_expr(e.idx, cnt) for e in new) and \
            cq.same_expr(byarr["weights"].val, AF) and cq.same_expr(byarr["idxcells"].val, CELL)
        if okn:
            fin = [f_ for f_ in ce.finals if f_[2] == "end"]
            adv = [f_ for f_ in fin if cq.found_after(srch, f_[1]) is False]
            stay = [f_ for f_ in fin if cq.found_after(srch, f_[1]) is not False]
            okn = bool(adv) and all(cnt in f_[0] and cq.same_expr(f_[0][cnt], f"{cnt}+1") for f_ in adv) and \
                all(cnt not in f_[0] or cq.same_expr(f_[0][cnt], cnt) for f_ in stay) and len(cq.steps_of(loop, cnt)) == 1
        if okn:
            # the last free slot is usable: appending is not refused while the counter is ncells - 1 (the wrapper sizes the outputs with the
            # number of cells of the coarse grid, all of which a catchment can touch)
            def refused_at_last_slot(e):
                for nc_ in range(1, 6):
                    for cnd, t in e.conds:
                        v = cq.int_eval(cnd, {cnt: nc_ - 1, "ncells": nc_})
                        if v is not None and bool(v) != t:
                            return True
                return False
            full = [e for e in new if refused_at_last_slot(e)]
            rep.check(not full, "R16.a", file, "c_intersect", "capacity test refuses a new cell only when all ncells slots are used",
                      f"the store at line {full[0].line} is not reached when {cnt} == ncells - 1" if full else "", line=loop.get("_line"))
        others = [e for e in alls if e not in new and not any(e is f_ or (e.loops and e.line == f_.line and e.arr == f_.arr and e.op == f_.op) for f_ in found)]
        oksr = oksr and not others
    rep.check(oksr, "R16.a", file, "c_intersect", "a centre falling in a listed cell adds the area factor (csz_area/csz)^2 to that cell's weight, once", det, line=loop.get("_line"))
    rep.check(okn, "R16.a", file, "c_intersect", "a centre falling in a new cell appends (cell, weight = area factor) and advances the counter by one", "", line=loop.get("_line"))

    # ---------------- wrapper ---------------------------------------------------------------------------------------------
    P = pyxread.load_all(rep.repo)
    shims = {cm: {sh.name: sh for sh in d["shims"]} for cm, d in P.items()}
    sites, _ = xlayer.find_sites(rep.repo, shims)
    st = kernel_site(sites, "intersect")
    f = st.func
    ok, how, _ = xlayer.error_discipline(st)
    rep.check(ok, "R16.b", "gis/grid.py", "Catchment.intersect", "kernel error code raises", how, line=st.call.lineno)
    pargs = args_at_call(f, st)
    GS, FS = "grid._getsize()", "self.flowdir._getsize()"
    geo = {"xll": f"{GS}[0]", "yll": f"{GS}[1]", "csz": f"{GS}[2]", "nrows": f"{GS}[3]", "ncols": f"{GS}[4]", "csz_area": f"{FS}[2]"}
    okg = all(pn in pargs and pq.same(pargs[pn], w) for pn, w in geo.items())
    rep.check(okg, "R16.b", "gis/grid.py", "Catchment.intersect", "geometry of the coarse grid and cell size of the flow-direction grid, bound to the kernel parameters of the same meaning",
              "; ".join(f"{k_}={show(pargs.get(k_, num(0)))[:40]}" for k_ in geo), line=st.call.lineno)
    okxy = "xy_area" in pargs and _cells_choice(pargs["xy_area"])
    rep.check(okxy, "R16.b", "gis/grid.py", "Catchment.intersect", "points = centres of the (filled) catchment area cells", show(pargs.get("xy_area", num(0)))[:160], line=st.call.lineno)
    for pn in ("idxcells", "weights"):
        v = st.args.get(pn)
        xlayer.check_init(rep, v, ("zeros",), "R16.b", "gis/grid.py", "Catchment.intersect", f"`{pn}`: fresh zero vector", st.call.lineno,
                          extra_ok=v is not None and v[1].shape is not None and len(v[1].shape) == 1)
    paths, before = run_with_havoc(f, st.call, {v[0].id: pn for pn, v in st.args.items() if isinstance(v[0], ast.Name)})
    rets = [p for p in paths if p.how == "return"]
    if not rets:
        raise AnalysisError("gis/grid.py: Catchment.intersect: no returning path")
    p = rets[-1]
    IDX, WGT = "Kidx[:Knp[0]]", "Kwgt[:Knp[0]]"
    kenv = {"Kidx": ('sym', 'K.idxcells'), "Kwgt": ('sym', 'K.weights'), "Knp": ('sym', 'K.npoints')}
    P_ = lambda txt: pq.parse(txt, kenv)
    val = p.value
    oktr = isinstance(val, tuple) and val[0] == 'tuple' and len(val[1]) == 3 and pq.same(val[1][1], P_(IDX)) and pq.same(val[1][2], P_(WGT))
    rep.check(oktr, "R16.b", "gis/grid.py", "Catchment.intersect", "outputs truncated with the number of distinct cells reported by the kernel",
              show(val)[:200] if isinstance(val, tuple) else "", line=f.lineno)
    RC = f"grid.cell2rowcol({IDX})"
    R0, R1 = f"np.min({RC}[:, 0])", f"np.max({RC}[:, 0])"
    C0, C1 = f"np.min({RC}[:, 1])", f"np.max({RC}[:, 1])"
    pool = ('tuple', tuple(e.val for e in p.effects if e.val is not None) + (val,) + tuple(v for v in p.env.values() if isinstance(v, tuple)))
    grids = pq.find(pool, lambda e: pq.call_named(e, "f:Grid"))
    okrc = okgr = False
    if grids:
        g = grids[0]
        okrc = pq.same(pq.kw_of(g, "nrows") or num(-1), P_(f"{R1} - {R0} + 1")) and pq.same(pq.kw_of(g, "ncols") or num(-1), P_(f"{C1} - {C0} + 1"))
        XY = f"grid.cell2coord({IDX})"
        okgr = pq.same(pq.kw_of(g, "xllcorner") or num(-1), P_(f"np.min({XY}[:, 0]) - grid.cellsize/2")) and \
            pq.same(pq.kw_of(g, "yllcorner") or num(-1), P_(f"np.min({XY}[:, 1]) - grid.cellsize/2")) and pq.same(pq.kw_of(g, "cellsize") or num(-1), "grid.cellsize")
    rep.check(okrc, "R16.b", "gis/grid.py", "Catchment.intersect", "sub-grid spans min..max row and column of the touched cells (nrows = row_end-row_start+1, ncols likewise)", "", line=f.lineno)
    rep.check(okgr, "R16.b", "gis/grid.py", "Catchment.intersect", "sub-grid georeferenced at the lower-left corner of its lower-left touched cell", "", line=f.lineno)
    data = [e for e in p.effects if e.kind == 'attr' and e.target.endswith(".data")]
    oksc = False
    if data:
        d = data[-1].val
        if isinstance(d, tuple) and pq.call_named(d, "setitem"):
            base, key, v = d[2]
            okbase = pq.call_named(base, "zeros") and pq.same(base[2][0], P_(f"({R1} - {R0} + 1, {C1} - {C0} + 1)"))
            forms = [(f"(({RC}[:, 0] - {R0})[:, None], ({RC}[:, 1] - {C0})[:, None])", f"{WGT}[:, None]"),
                     (f"({RC}[:, 0] - {R0}, {RC}[:, 1] - {C0})", WGT)]
            oksc = okbase and any(pq.same(key, P_(k_)) and pq.same(v, P_(v_)) for k_, v_ in forms)
    rep.check(oksc, "R16.b", "gis/grid.py", "Catchment.intersect", "weight k placed at (row_k - row_start, col_k - col_start) of a zeroed sub-grid", "", line=f.lineno)
    spa = [e for e in p.effects if e.kind == 'call' and e.target.endswith("set_parent_attributes")]
    okpa = False
    if spa:
        a = spa[-1].val[2][1:]
        okpa = len(a) == 5 and pq.same(a[0], "grid") and all(pq.same(x, P_(w)) for x, w in zip(a[1:], (R0, R1, C0, C1)))
    rep.check(okpa, "R16.b", "gis/grid.py", "Catchment.intersect", "parent bookkeeping records the same row/column bounds", "", line=f.lineno)
    # the weights reach the returned grid unclipped: the Grid.data setter clips to finite mindata / maxdata
    bounded = []
    for p_ in rets:
        for e in p_.effects:
            if e.kind == 'attr' and e.target.split(".")[-1] in ("mindata", "maxdata", "_mindata", "_maxdata") and e.val is not None and \
                    not pq.mentions(e.val, lambda x: x in (('sym', 'np.inf'), ('sym', 'inf')) or pq.call_named(x, "inf")) and e.val != ('sym', 'None'):
                bounded.append(f"{e.target} = {show(e.val)[:30]} (line {e.line})")
        for x in pq.find(('tuple', tuple(v for v in p_.env.values() if isinstance(v, tuple))), lambda y: pq.call_named(y, "f:Grid")):
            for kw_ in ("mindata", "maxdata"):
                v_ = pq.kw_of(x, kw_)
                if v_ is not None and v_ != ('sym', 'None') and not pq.mentions(v_, lambda z: z in (('sym', 'np.inf'), ('sym', 'inf'))):
                    bounded.append(f"Grid(.., {kw_}={show(v_)[:30]})")
    rep.check(not bounded, "R16.b", "gis/grid.py", "Catchment.intersect", "the weight grid has no finite data bounds (the data setter would clip the weights)",
              "; ".join(sorted(set(bounded))[:3]), line=f.lineno, firm=True)

    # ---------------- voronoi ---------------------------------------------------------------------------------------------------
    vtop = body_stmts(fv["body"])
    vl = [s for s in vtop if s.get("kind") == "ForStmt"]
    main = [l for l in vl if find_all(l, lambda n: n.get("kind") == "ForStmt" and n is not l)]
    if len(main) != 1:
        raise AnalysisError(f"{file}: c_voronoi main loop not recognised")
    main = main[0]
    pre_l = [l for l in vl if vtop.index(l) < vtop.index(main)]
    post_l = [l for l in vl if vtop.index(l) > vtop.index(main)]
    okz = False
    for l in pre_l:
        lr_ = cq.loop_range(l, cq.preceding(vtop, l))
        ez = cq.stores(cq.evaluate(body_stmts(loop_parts(l)[3])), "weights")
        if cq.range_is(lr_, "0", "npoints-1") and len(ez) == 1 and ez[0].op == "=" and cq.same_expr(ez[0].val, "0") and cq.same_expr(ez[0].idx, lr_["var"]) and not ez[0].conds:
            okz = True
    rep.check(okz, "R16.c", file, "c_voronoi", "weights zeroed for all points before counting", "", line=main.get("_line"))
    okn_ = False
    for l in post_l:
        lr_ = cq.loop_range(l, cq.preceding(vtop, l))
        en = cq.stores(cq.evaluate(body_stmts(loop_parts(l)[3])), "weights")
        if cq.range_is(lr_, "0", "npoints-1") and len(en) == 1 and cq.same_expr(en[0].idx, lr_["var"]) and not en[0].conds:
            e = en[0]
            v_ = lr_["var"]
            okn_ = (e.op == "/=" and cq.same_expr(e.val, "ncells")) or (e.op == "=" and cq.same_expr(e.val, f"weights[{v_}]/ncells")) or \
                (e.op == "*=" and cq.same_expr(e.val, "1/ncells"))
    rep.check(okn_, "R16.c", file, "c_voronoi", "weights divided by the number of catchment cells (sum = 1)", "", line=main.get("_line"))
    mlr = cq.loop_range(main, cq.preceding(vtop, main))
    mv = mlr["var"] if mlr else loop_var(main)
    rep.check(cq.range_is(mlr, "0", "ncells-1"), "R16.c", file, "c_voronoi", "every catchment cell is visited once", "", line=main.get("_line"))
    mstm = body_stmts(loop_parts(main)[3])
    inner = [s for s in mstm if s.get("kind") == "ForStmt"]
    if len(inner) != 1:
        raise AnalysisError(f"{file}: c_voronoi point loop not recognised")
    inner = inner[0]
    ilr = cq.loop_range(inner, cq.preceding(mstm, inner))
    jv = ilr["var"] if ilr else loop_var(inner)
    prece = cq.evaluate(cq.preceding(mstm, inner), oracle=lambda c: False)
    cellx = f"idxcells_area[{mv}]"
    colx, rowx = f"({cellx} % ncols)", f"(({cellx} - {cellx} % ncols)/ncols)"
    cx = [e for e in prece.effects if e.op == "=" and cq.same_expr(e.val, f"xll + csz*({colx} + 0.5)")]
    cy = [e for e in prece.effects if e.op == "=" and cq.same_expr(e.val, f"yll + csz*((nrows - 1 - {rowx}) + 0.5)")]
    okcen = len(cx) == 1 and len(cy) == 1 and cx[0].arr == cy[0].arr
    rep.check(okcen, "R16.c", file, "c_voronoi", "cell centre of catchment cell i: (xll + csz (col + 1/2), yll + csz (nrows-1-row + 1/2))", "", line=main.get("_line"))
    if not okcen:
        return EXPLANATION
    X, Y = f"{cx[0].arr}[{show(cx[0].idx)}]", f"{cy[0].arr}[{show(cy[0].idx)}]"
    D2 = f"({X} - xypoints[2*{jv}])*({X} - xypoints[2*{jv}]) + ({Y} - xypoints[2*{jv}+1])*({Y} - xypoints[2*{jv}+1])"
    ice = cq.evaluate(body_stmts(loop_parts(inner)[3]))
    sel_ok, seld = False, ""
    upd = [f_ for f_ in ice.finals if any(t for _, t in f_[1])]
    keep = [f_ for f_ in ice.finals if not any(t for _, t in f_[1])]
    if len(ice.finals) == 2 and len(upd) == 1 and len(keep) == 1 and len(upd[0][1]) == 1:
        env_u = upd[0][0]
        cond, _t = upd[0][1][0]
        changed = {k_: v for k_, v in env_u.items() if "[" not in k_}
        dmin = [k_ for k_, v in changed.items() if cq.same_expr(v, f"sqrt({D2})") or cq.same_expr(v, D2)]
        jmin = [k_ for k_, v in changed.items() if cq.same_expr(v, jv)]
        if len(dmin) == 1 and len(jmin) == 1 and len(changed) == 2:
            dist = changed[dmin[0]]
            sel_ok = cq.same_cond(cond, ('cmp', '<', dist, ('sym', dmin[0])), False) and not [k_ for k_ in keep[0][0] if "[" not in k_]
            seld = f"minimum `{dmin[0]}`, arg-min `{jmin[0]}`"
            pre = {}
            for s in cq.preceding(mstm, inner):
                if s.get("kind") == "BinaryOperator" and s.get("opcode") == "=" and strip(s["inner"][0]).get("kind") == "DeclRefExpr":
                    pre[text(s["inner"][0])] = s["inner"][1]
            big = False
            if dmin[0] in pre:
                try:
                    big = float(Canon().ratio(ceval.to_expr(pre[dmin[0]], {})).cval()) >= 1e20
                except Exception:
                    big = False
            rep.check(big and jmin[0] in pre and cq.same_expr(pre[jmin[0]], "0"), "R16.c", file, "c_voronoi", "search initialised with an (effectively) infinite distance and index 0", "", line=main.get("_line"))
            mce = cq.evaluate(mstm, oracle=lambda c: False if "idxcells_area" in show(c) or show(c).replace(" ", "") in ("(0>0)",) else None)
            inc = [e for e in cq.stores(mce, "weights") if not e.loops]
            rep.check(len(inc) == 1 and inc[0].op == "+=" and cq.same_expr(inc[0].val, "1") and cq.same_expr(inc[0].idx, jmin[0]) and not cq.stores(ice, "weights"),
                      "R16.c", file, "c_voronoi", "each catchment cell adds exactly 1 to its nearest point", "", line=main.get("_line"))
    rep.check(sel_ok and cq.range_is(ilr, "0", "npoints-1") and not ilr["extra"], "R16.c", file, "c_voronoi",
              "nearest point = strict minimum over all points of a monotone function of dx^2 + dy^2, compared with itself (lowest index wins ties); no other pruning test", seld, line=inner.get("_line"))
    sv = kernel_site(sites, "voronoi")
    ok, how, _ = xlayer.error_discipline(sv)
    rep.check(ok, "R16.c", "gis/grid.py", "voronoi", "kernel error code raises", how, line=sv.call.lineno)
    vargs = args_at_call(sv.func, sv)
    VG = "catchment._flowdir._getsize()"
    vgeo = {"xll": f"{VG}[0]", "yll": f"{VG}[1]", "csz": f"{VG}[2]", "nrows": f"{VG}[3]", "ncols": f"{VG}[4]"}
    rep.check(all(pn in vargs and pq.same(vargs[pn], w) for pn, w in vgeo.items()), "R16.c", "gis/grid.py", "voronoi",
              "geometry of the catchment's flow-direction grid bound to the kernel parameters of the same meaning",
              "; ".join(f"{k_}={show(vargs.get(k_, num(0)))[:50]}" for k_ in vgeo), line=sv.call.lineno)
    # the cells that vote are the cells of the catchment area itself (the hole-filled area used for extents and boundaries counts cells
    # that do not drain to the outlet)
    ca = vargs.get("idxcells_area")
    cons_a = "the cells handed to c_voronoi are the catchment's area cells (idxcells_area), not the hole-filled set"
    if ca is None:
        rep.undecided("R16.c", "gis/grid.py", "voronoi", cons_a, "argument not bound", line=sv.call.lineno)
    else:
        filled = pq.mentions(ca, lambda x: x[0] == 'call' and x[1] in ("attr:_idxcells_area_filled", "attr:idxcells_area_filled"))
        plain = pq.mentions(ca, lambda x: x[0] == 'call' and x[1] in ("attr:_idxcells_area", "attr:idxcells_area"))
        if filled:
            rep.violation("R16.c", "gis/grid.py", "voronoi", cons_a, f"{show(ca)[:80]}: cells of internal holes are counted and the weights are normalised by the wrong total", line=sv.call.lineno, firm=True)
        elif plain:
            rep.proved("R16.c", "gis/grid.py", "voronoi", cons_a, line=sv.call.lineno)
        else:
            rep.undecided("R16.c", "gis/grid.py", "voronoi", cons_a, show(ca)[:100], line=sv.call.lineno)
    return EXPLANATION


def _neg_disj(conds, want):
    """`want` is a disjunct of a condition that is false on the path"""
    cn = Canon()
    w = cq.cond_atoms(want, True, None, cn)
    for c, t in conds:
        if t:
            continue
        a = cq.cond_atoms(c, None, None, cn)
        parts = a[1] if isinstance(a, tuple) and a[0] == 'or' else [a]
        if any(w == p_ for p_ in parts):
            return True
    return False


def _cells_choice(e):
    """centres of self._idxcells_area_filled when `filled` else of self._idxcells_area, through flowdir.cell2coord"""
    want = pq.parse("self.flowdir.cell2coord(self._idxcells_area_filled if filled else self._idxcells_area)")
    alt = pq.parse("self.flowdir.cell2coord(self._idxcells_area if not filled else self._idxcells_area_filled)")
    return pq.same(e, want) or pq.same(e, alt)
