"""C16 -- catchment-grid intersection and Voronoi weights conserve area (structural clauses)."""
import ast

from ..core import AnalysisError
from ..cfront import strip, text
from .. import ckern, xlayer, pyxread
from ..ceval import CEval, find_all, loop_parts, body_stmts, loop_var, stores_to
from ..formula import Canon, Ratio, Undecided, show, num, ExprBuilder
from ..pyfront import Mod, dotted, const_value

EXPLANATION = (
    "c_intersect's step is evaluated symbolically for its three cases: a catchment-cell centre outside the coarse "
    "grid (negative cell number or error) contributes nothing; a centre in an already listed cell adds exactly the "
    "area factor to that cell's weight; a centre in a new cell appends the cell with weight = area factor and advances "
    "the counter by one; the area factor is (csz_area/csz)^2 and the counter is what the wrapper truncates with -- so "
    "each catchment cell is counted once, in one grid cell.  The wrapper passes the cell centres of the (filled) area, "
    "the grid geometry in the kernel's order, zeroed output vectors of the grid's size, and scatters the weights at "
    "row - row_start, col - col_start of a sub-grid spanning min..max row and column, recorded as parent bookkeeping.  "
    "c_voronoi: weights zeroed, every catchment cell adds 1 to the point with the strictly smallest Euclidean distance "
    "(lowest index wins ties, the distance is a monotone function of dx^2+dy^2 compared with itself), weights divided "
    "by the number of cells -- hence non-negative and summing to 1.  Area conservation as a number is not computed.")


def run(rep):
    rep.rule("R16.a", "c_intersect step: outside -> nothing; listed cell -> weight += factor; new cell -> appended with weight = factor, counter + 1; factor = (csz_area/csz)^2")
    rep.rule("R16.b", "wrapper: centres of the catchment cells, zeroed outputs of grid size, truncation with the kernel's count, weights scattered at (row-row_start, col-col_start) of the min..max sub-grid, parent bookkeeping")
    rep.rule("R16.c", "c_voronoi: zeroed weights, +1 to the strictly nearest point (same distance function on both sides of the comparison), division by the number of cells")
    K = ckern.analyze(rep.repo)
    fi, fv = K["fns"].get("c_intersect"), K["fns"].get("c_voronoi")
    if fi is None or fv is None:
        raise AnalysisError("gis/c_grid.c: c_intersect / c_voronoi not found")
    file = fi["file"]
    rep.unit(f"{file}: c_intersect, c_voronoi; gis/grid.py: Catchment.intersect, voronoi")
    cn = Canon()
    top = [s for s in fi["body"]["inner"] if s.get("kind")]
    af = [s for s in top if s.get("kind") == "BinaryOperator" and text(s["inner"][0]) == "areafactor"]
    okaf = False
    if af:
        from ..ceval import to_expr
        okaf = cn.ratio(to_expr(af[0]["inner"][1], {})) == cn.ratio(('pow', ('div', ('sym', 'csz_area'), ('sym', 'csz')), num(2)))
    rep.check(okaf, "R16.a", file, "c_intersect", "area factor = (csz_area / csz)^2 (ratio of cell areas)", text(af[0]["inner"][1]) if af else "", line=fi["line"])
    loop = [s for s in top if s.get("kind") == "ForStmt"]
    if len(loop) != 1:
        raise AnalysisError(f"{file}: c_intersect loop not found")
    loop = loop[0]
    iv = loop_var(loop)
    stm = body_stmts(loop_parts(loop)[3])
    rep.check(text(loop_parts(loop)[1]).replace(" ", "") == f"{iv}<nval" and text(loop_parts(loop)[0]).replace(" ", "") == f"{iv}=0", "R16.a", file, "c_intersect", "every catchment cell is visited once", "", line=loop.get("_line"))
    search = [s for s in stm if s.get("kind") == "ForStmt"]
    if len(search) != 1:
        raise AnalysisError(f"{file}: c_intersect search loop not found")
    search = search[0]
    kv = loop_var(search)
    xy = {text(s["inner"][0]).replace(" ", ""): text(s["inner"][1]).replace(" ", "") for s in stm if s.get("kind") == "BinaryOperator" and s.get("opcode") == "="}
    rep.check(xy.get("xy[0]") == f"xy_area[2*{iv}]" and xy.get("xy[1]") == f"xy_area[2*{iv}+1]", "R16.a", file, "c_intersect", "point i = centre of catchment cell i", str(xy), line=loop.get("_line"))
    call = find_all(loop, lambda n: n.get("kind") == "CallExpr" and text(n["inner"][0]) == "c_coord2cell")
    okc = len(call) == 1 and [text(a).replace(" ", "") for a in call[0]["inner"][1:]] == ["nrows", "ncols", "xll", "yll", "csz", "1", "xy", "idxcell"]
    rep.check(okc, "R16.a", file, "c_intersect", "the centre is located in the coarse grid with c_coord2cell(grid geometry, 1, xy, idxcell)", "", line=loop.get("_line"))
    skip = [s for s in stm if s.get("kind") == "IfStmt" and find_all(s, lambda n: n.get("kind") == "ContinueStmt")]
    oksk = bool(skip) and all(x in text(skip[0]["inner"][0]).replace(" ", "") for x in ("ierr>0", "*idxcell<0")) and "||" in text(skip[0]["inner"][0])
    rep.check(oksk, "R16.a", file, "c_intersect", "centres outside the grid (cell -1) or conversion errors contribute nothing", text(skip[0]["inner"][0]) if skip else "", line=loop.get("_line"))
    # search loop: for(k=0;k<j;k++) if(idxcells[k]==*idxcell){weights[k]+=factor; break;}
    sinit, scond = text(loop_parts(search)[0]).replace(" ", ""), text(loop_parts(search)[1]).replace(" ", "")
    sifs = find_all(search, lambda n: n.get("kind") == "IfStmt")
    oksr = sinit == f"{kv}=0" and scond == f"{kv}<j" and len(sifs) == 1 and text(sifs[0]["inner"][0]).replace(" ", "") in (f"idxcells[{kv}]==*idxcell", f"*idxcell==idxcells[{kv}]")
    incs = find_all(sifs[0], lambda n: n.get("kind") == "CompoundAssignOperator") if sifs else []
    oksr = oksr and len(incs) == 1 and text(incs[0]).replace(" ", "") == f"weights[{kv}]+=areafactor" and bool(find_all(sifs[0], lambda n: n.get("kind") == "BreakStmt"))
    rep.check(oksr, "R16.a", file, "c_intersect", "a centre falling in a listed cell adds the area factor to that cell's weight (once: break)", "", line=search.get("_line"))
    newif = [s for s in stm if s.get("kind") == "IfStmt" and text(s["inner"][0]).replace(" ", "") in (f"{kv}==j", f"j=={kv}")]
    okn = False
    if newif:
        ce = CEval(lambda c: False if "ncells" in show(c) else None)
        env = {"j": ('sym', 'J0'), "areafactor": ('sym', 'AF')}
        ce._walk(body_stmts(newif[0]["inner"][1]), env, [])
        st = {e.arr: e for e in ce.effects if e.op == "="}
        okn = set(st) == {"idxcells", "weights"} and st["idxcells"].idx == ('sym', 'J0') and st["weights"].idx == ('sym', 'J0') and \
            st["weights"].val == ('sym', 'AF') and show(st["idxcells"].val) in ("A:idxcell(0)",) and cn.ratio(env["j"]) == cn.ratio(('add', ('sym', 'J0'), num(1)))
    rep.check(okn, "R16.a", file, "c_intersect", "a centre falling in a new cell appends (cell, weight = area factor) and advances the counter by one", "", line=newif[0].get("_line") if newif else loop.get("_line"))
    np_ = [s for s in top if s.get("kind") == "BinaryOperator" and text(s["inner"][0]).replace(" ", "") == "npoints[0]"]
    rep.check(bool(np_) and text(np_[0]["inner"][1]).replace(" ", "") == "j", "R16.a", file, "c_intersect", "npoints[0] = number of distinct cells", "", line=fi["line"])
    j0 = [s for s in top if s.get("kind") == "BinaryOperator" and text(s["inner"][0]) == "j" and text(s["inner"][1]) == "0"]
    rep.check(bool(j0), "R16.a", file, "c_intersect", "counter starts at 0", "", line=fi["line"])

    # ---------------- wrapper ---------------------------------------------------------------------------------------------
    P = pyxread.load_all(rep.repo)
    shims = {cm: {sh.name: sh for sh in d["shims"]} for cm, d in P.items()}
    sites, _ = xlayer.find_sites(rep.repo, shims)
    st = [s for s in sites if s.shim.name == "intersect"]
    if len(st) != 1:
        raise AnalysisError("gis/grid.py: intersect call site not found")
    st = st[0]
    f = st.func
    ok, how, _ = xlayer.error_discipline(st)
    rep.check(ok, "R16.b", "gis/grid.py", "Catchment.intersect", "kernel error code raises", how, line=st.call.lineno)
    names = {pn: ast.unparse(v[0]) for pn, v in st.args.items()}
    rep.check(all(names.get(k) == k for k in ("nrows", "ncols", "xll", "yll", "csz", "csz_area", "xy_area", "npoints", "idxcells", "weights")), "R16.b", "gis/grid.py", "Catchment.intersect",
              "arguments bound to the same-named shim parameters", str(names), line=st.call.lineno)
    asg = {}
    for n in ast.walk(f):
        if isinstance(n, ast.Assign):
            for t in n.targets:
                if isinstance(t, ast.Name):
                    asg.setdefault(t.id, []).append(n)
                elif isinstance(t, ast.Tuple):
                    for e in t.elts:
                        if isinstance(e, ast.Name):
                            asg.setdefault(e.id, []).append(n)
    u = lambda k, i=0: ast.unparse(asg[k][i].value).replace(" ", "") if k in asg and len(asg[k]) > i else None
    okg = u("xll") == "grid._getsize()" and ast.unparse(asg["xll"][0].targets[0]).replace(" ", "") == "(xll,yll,csz,nrows,ncols)" and \
        u("csz_area") == "self.flowdir._getsize()" and ast.unparse(asg["csz_area"][0].targets[0]).replace(" ", "") == "(_,_,csz_area,_,_)"
    rep.check(okg, "R16.b", "gis/grid.py", "Catchment.intersect", "geometry of the coarse grid and cell size of the flow-direction grid", "", line=f.lineno)
    rep.check(u("xy_area") == "self.flowdir.cell2coord(cells)" and u("cells") == "self._idxcells_area_fillediffilledelseself._idxcells_area", "R16.b", "gis/grid.py", "Catchment.intersect",
              "points = centres of the (filled) catchment area cells", f"{u('xy_area')}; {u('cells')}", line=f.lineno)
    for pn in ("idxcells", "weights"):
        v = st.args.get(pn)
        okv = v is not None and v[1].fresh and v[1].init == ("zeros",) and v[1].shape is not None and len(v[1].shape) == 1
        rep.check(okv, "R16.b", "gis/grid.py", "Catchment.intersect", f"`{pn}`: fresh zero vector", "", line=st.call.lineno)
    rep.check(u("idxcells", 1) == "idxcells[:npoints[0]]" and u("weights", 1) == "weights[:npoints[0]]", "R16.b", "gis/grid.py", "Catchment.intersect",
              "outputs truncated with the number of distinct cells reported by the kernel", f"{u('idxcells', 1)}, {u('weights', 1)}", line=f.lineno)
    okrc = u("rowcols") == "grid.cell2rowcol(idxcells)" and u("rows") == "np.unique(rowcols[:,0])" and u("cols") == "np.unique(rowcols[:,1])" and \
        u("row_start") == "(np.min(rows),np.max(rows))" and u("col_start") == "(np.min(cols),np.max(cols))" and \
        u("anrows") == "row_end-row_start+1" and u("ancols") == "col_end-col_start+1"
    rep.check(okrc, "R16.b", "gis/grid.py", "Catchment.intersect", "sub-grid spans min..max row and column of the touched cells (anrows = row_end-row_start+1, ancols likewise)",
              f"anrows={u('anrows')}, ancols={u('ancols')}", line=f.lineno)
    sc = [n for n in ast.walk(f) if isinstance(n, ast.Assign) and isinstance(n.targets[0], ast.Subscript) and dotted(n.targets[0].value) == "weights_array"]
    oksc = bool(sc) and ast.unparse(sc[0].targets[0].slice).replace(" ", "") == "((rowcols[:,0]-row_start)[:,None],(rowcols[:,1]-col_start)[:,None])" and \
        ast.unparse(sc[0].value).replace(" ", "") == "weights[:,None]" and u("weights_array") == "np.zeros((anrows,ancols))"
    rep.check(oksc, "R16.b", "gis/grid.py", "Catchment.intersect", "weight k placed at (row_k - row_start, col_k - col_start) of a zeroed sub-grid", "", line=f.lineno)
    spa = [n for n in ast.walk(f) if isinstance(n, ast.Call) and isinstance(n.func, ast.Attribute) and n.func.attr == "set_parent_attributes"]
    rep.check(bool(spa) and [ast.unparse(a) for a in spa[0].args] == ["grid", "row_start", "row_end", "col_start", "col_end"], "R16.b", "gis/grid.py", "Catchment.intersect",
              "parent bookkeeping records the same row/column bounds", "", line=f.lineno)
    g = [n for n in ast.walk(f) if isinstance(n, ast.Call) and dotted(n.func) == "Grid"]
    okgr = bool(g) and {k.arg: ast.unparse(k.value).replace(" ", "") for k in g[0].keywords}.items() >= {"ncols": "ancols", "nrows": "anrows", "cellsize": "grid.cellsize", "xllcorner": "axll", "yllcorner": "ayll"}.items()
    okgr = okgr and u("axll") == "np.min(coords[:,0])-grid.cellsize/2" and u("ayll") == "np.min(coords[:,1])-grid.cellsize/2" and u("coords") == "grid.cell2coord(idxcells)"
    rep.check(okgr, "R16.b", "gis/grid.py", "Catchment.intersect", "sub-grid georeferenced at the lower-left corner of its lower-left touched cell", "", line=f.lineno)

    # ---------------- voronoi ---------------------------------------------------------------------------------------------------
    vtop = [s for s in fv["body"]["inner"] if s.get("kind")]
    vl = [s for s in vtop if s.get("kind") == "ForStmt"]
    zero = [l for l in vl if stores_to(l, "weights") and not find_all(l, lambda n: n.get("kind") == "CompoundAssignOperator")]
    norm = [l for l in vl if find_all(l, lambda n: n.get("kind") == "CompoundAssignOperator" and n.get("opcode") == "/=")]
    main = [l for l in vl if find_all(l, lambda n: n.get("kind") == "ForStmt" and n is not l)]
    if len(zero) != 1 or len(norm) != 1 or len(main) != 1:
        raise AnalysisError(f"{file}: c_voronoi loops not recognised")
    zv = loop_var(zero[0])
    z = stores_to(zero[0], "weights")
    rep.check(text(loop_parts(zero[0])[1]).replace(" ", "") == f"{zv}<npoints" and text(z[0]["inner"][1]) == "0" and vtop.index(zero[0]) < vtop.index(main[0]), "R16.c", file, "c_voronoi", "weights zeroed for all points before counting", "", line=zero[0].get("_line"))
    nv = loop_var(norm[0])
    nd = find_all(norm[0], lambda n: n.get("kind") == "CompoundAssignOperator")
    rep.check(text(loop_parts(norm[0])[1]).replace(" ", "") == f"{nv}<npoints" and text(nd[0]).replace(" ", "") == f"weights[{nv}]/=(double)ncells" and vtop.index(norm[0]) > vtop.index(main[0]),
              "R16.c", file, "c_voronoi", "weights divided by the number of catchment cells (sum = 1)", text(nd[0]) if nd else "", line=norm[0].get("_line"))
    mv = loop_var(main[0])
    mstm = body_stmts(loop_parts(main[0])[3])
    inner = [s for s in mstm if s.get("kind") == "ForStmt"][0]
    jv = loop_var(inner)
    istm = body_stmts(loop_parts(inner)[3])
    d = {text(s["inner"][0]): text(s["inner"][1]).replace(" ", "") for s in istm if s.get("kind") == "BinaryOperator" and s.get("opcode") == "="}
    okd = d.get("dx") == f"xy[0]-xypoints[2*{jv}]" and d.get("dy") == f"xy[1]-xypoints[2*{jv}+1]" and d.get("dist") in ("sqrt(dx*dx+dy*dy)", "dx*dx+dy*dy")
    rep.check(okd, "R16.c", file, "c_voronoi", "distance from the cell centre to point j is a monotone function of dx^2 + dy^2", str(d), line=inner.get("_line"))
    sel = [s for s in istm if s.get("kind") == "IfStmt"]
    oks = len(sel) == 1 and text(sel[0]["inner"][0]).replace(" ", "") == "dist<distmin"
    if oks:
        a2 = {text(s["inner"][0]): text(s["inner"][1]).replace(" ", "") for s in find_all(sel[0], lambda n: n.get("kind") == "BinaryOperator" and n.get("opcode") == "=")}
        oks = a2 == {"distmin": "dist", "jmin": jv}
    other = [s for s in istm if s.get("kind") in ("IfStmt",) and s is not (sel[0] if sel else None)]
    rep.check(oks and not other and text(loop_parts(inner)[1]).replace(" ", "") == f"{jv}<npoints" and text(loop_parts(inner)[0]).replace(" ", "") == f"{jv}=0", "R16.c", file, "c_voronoi",
              "nearest point = strict minimum of that distance over all points, compared with itself (lowest index wins ties); no other pruning test", "", line=inner.get("_line"))
    pre = {text(s["inner"][0]): text(s["inner"][1]).replace(" ", "") for s in mstm if s.get("kind") == "BinaryOperator" and s.get("opcode") == "="}
    rep.check(pre.get("jmin") == "0" and pre.get("distmin") is not None and float(pre["distmin"]) >= 1e20 if pre.get("distmin") else False, "R16.c", file, "c_voronoi", "search initialised with an (effectively) infinite distance", str(pre), line=main[0].get("_line"))
    inc = [s for s in mstm if s.get("kind") == "CompoundAssignOperator"]
    rep.check(len(inc) == 1 and text(inc[0]).replace(" ", "") == "weights[jmin]+=1", "R16.c", file, "c_voronoi", "each catchment cell adds exactly 1 to its nearest point", "", line=main[0].get("_line"))
    gc = find_all(main[0], lambda n: n.get("kind") == "CallExpr" and text(n["inner"][0]) == "getcoord")
    rep.check(len(gc) == 1 and [text(a).replace(" ", "") for a in gc[0]["inner"][1:]] == ["nrows", "ncols", "xll", "yll", "csz", "idxcell", "xy"] and pre.get("idxcell") == f"idxcells_area[{mv}]",
              "R16.c", file, "c_voronoi", "cell centre from getcoord of catchment cell i", "", line=main[0].get("_line"))
    sv = [s for s in sites if s.shim.name == "voronoi"]
    if len(sv) != 1:
        raise AnalysisError("gis/grid.py: voronoi call site not found")
    sv = sv[0]
    ok, how, _ = xlayer.error_discipline(sv)
    rep.check(ok, "R16.c", "gis/grid.py", "voronoi", "kernel error code raises", how, line=sv.call.lineno)
    names = {pn: ast.unparse(v[0]) for pn, v in sv.args.items()}
    rep.check(all(names.get(k) == k for k in ("nrows", "ncols", "xll", "yll", "csz", "idxcells_area", "xypoints", "weights")), "R16.c", "gis/grid.py", "voronoi", "arguments bound to the same-named shim parameters", str(names), line=sv.call.lineno)
    vf = sv.func
    geo = [n for n in ast.walk(vf) if isinstance(n, ast.Assign) and ast.unparse(n).replace(" ", "") == "xll,yll,csz,nrows,ncols=catchment._flowdir._getsize()"]
    rep.check(bool(geo), "R16.c", "gis/grid.py", "voronoi", "geometry of the catchment's flow-direction grid", "", line=vf.lineno)
    return EXPLANATION
