"""C18 -- computations leave their arguments untouched and are repeatable (effect analysis)."""
import ast

from ..core import AnalysisError
from ..pyfront import Mod, dotted, walk_no_nested
from ..effects import FnAnalysis, AliasVal
from .. import ckern, ceffects, pyxread

EXPLANATION = (
    "Interprocedural alias/effect analysis of the 12 computational Python modules plus the kernel effect summaries: "
    "for every public function no element/slice store, augmented assignment, in-place method, out= keyword or "
    "mutating callee reaches a name that may share the buffer of a parameter; no caller-owned buffer reaches a "
    "kernel parameter that the C code writes or sorts; no function keeps hidden state (globals, mutated default "
    "arguments) and every source of randomness is the seedable global numpy generator.  These are the structural "
    "conditions under which arguments stay bit-for-bit unchanged and results repeat; bit-identity of library "
    "results themselves is trusted.")

MODULES = ["stat/metrics.py", "stat/sutils.py", "stat/armodels.py", "stat/transform.py", "data/dutils.py",
           "data/qualitycontrol.py", "data/signatures.py", "gis/grid.py", "gis/gutils.py", "plot/putils.py",
           "plot/boxplot.py", "plot/violinplot.py"]
MODALIAS = {"dutils": "data/dutils.py", "sutils": "stat/sutils.py", "metrics": "stat/metrics.py", "gutils": "gis/gutils.py",
            "putils": "plot/putils.py", "transform": "stat/transform.py", "qualitycontrol": "data/qualitycontrol.py",
            "signatures": "data/signatures.py", "armodels": "stat/armodels.py", "boxplot": "plot/boxplot.py",
            "violinplot": "plot/violinplot.py", "grid": "gis/grid.py"}

# reviewed allowances: (module, function, root, kind prefix) -> reason
ALLOW = {
    ("gis/gutils.py", "points_inside_polygon", "inside"): "documented output buffer (`inside` may be supplied to avoid re-allocation)",
}
# `<grid argument>.dtype = T` converts the storage type and keeps the cell values (property: grid arguments keep
# their cell values); it is the only attribute store on a parameter that is accepted
DTYPE_ATTR = "dtype"

UNSEEDED = {"np.random.default_rng", "numpy.random.default_rng", "np.random.RandomState", "np.random.Generator",
            "random.SystemRandom", "os.urandom", "np.random.SeedSequence", "secrets.token_bytes"}
RESEED = {"np.random.seed", "numpy.random.seed", "random.seed"}
CLOCK = {"time.time", "time.time_ns", "datetime.now", "datetime.datetime.now", "uuid.uuid4"}


DYNAMIC = {"forward", "backward", "jacobian"}
DYNAMIC_SELF = {"_forward", "_backward", "_jacobian"}


def is_public(q):
    parts = q.split(".")
    return not any(p.startswith("_") for p in parts) and not q.endswith(".setter")


def run(rep):
    rep.rule("R18.a", "no in-place write reaches a name that may share the buffer (or identity) of a parameter")
    rep.rule("R18.b", "no caller-owned buffer is handed to a kernel parameter that the C code writes or sorts")
    rep.rule("R18.c", "no hidden state: no module-global stores, no mutated mutable default argument")
    rep.rule("R18.d", "randomness only through the seedable global numpy generator; no re-seeding, no clock / OS entropy")
    rep.assume("numpy/pandas copy semantics as tabulated in hyverif/effects.py")
    rep.assume("`self` is not an argument in the sense of the property: methods whose purpose is to change their object are out of scope")
    mods = {rel: Mod(rep.repo, rel) for rel in MODULES}
    allf = {}
    for rel, m in mods.items():
        for q, f in m.funcs.items():
            allf[(rel, q)] = f
    rep.unit(f"{len(MODULES)} modules, {len(allf)} functions/methods")
    rep.floor("functions analysed", len(allf), 250)

    # dynamic dispatch: methods of the transform interface (public entry points called on `trans` arguments, and the internal methods the
    # base class calls on self), resolved to every implementation with the same positional signature
    dyn = {}
    for (rel_, q_), f_ in allf.items():
        if rel_ != "stat/transform.py" or "." not in q_ or q_.endswith(".setter"):
            continue
        mname = q_.split(".")[1]
        if mname in DYNAMIC:
            dyn.setdefault(("*", mname), []).append((rel_, q_))
        if mname in DYNAMIC_SELF:
            dyn.setdefault(("*", "self." + mname), []).append((rel_, q_))
    for k_ in list(dyn):
        n0 = len(allf[dyn[k_][0]].args.args)
        dyn[k_] = [c_ for c_ in dyn[k_] if len(allf[c_].args.args) == n0]

    def resolver_for(rel, q):
        m = mods[rel]
        cls = q.split(".")[0] if "." in q else None

        def resolve(call):
            f = call.func
            target = None
            if isinstance(f, ast.Name):
                if f.id in m.funcs:
                    target = (rel, f.id)
                elif f.id in m.imports:
                    # from hydrodiy.x.y import func
                    tgt = m.imports[f.id]
                    mod_part, _, fn = tgt.rpartition(".")
                    key = MODALIAS.get(mod_part.split(".")[-1])
                    if key and fn in mods[key].funcs:
                        target = (key, fn)
            elif isinstance(f, ast.Attribute):
                if isinstance(f.value, ast.Name):
                    if f.value.id in ("self", "cls") and cls and f"{cls}.{f.attr}" in m.funcs:
                        target = (rel, f"{cls}.{f.attr}")
                    elif f.value.id in m.imports:
                        key = MODALIAS.get(m.imports[f.value.id].split(".")[-1])
                        if key and f.attr in mods[key].funcs:
                            target = (key, f.attr)
            if target is None and isinstance(f, ast.Attribute) and isinstance(f.value, ast.Name) and f.attr in DYNAMIC and \
                    f.value.id not in ("self", "cls") and f.value.id not in m.imports:
                # a method of the repository's polymorphic interface called on an object of unknown class (a `trans` parameter):
                # the union of every class's implementation
                target = ("*", f.attr)
            if target is not None and target[0] != "*" and isinstance(f, ast.Attribute) and isinstance(f.value, ast.Name) and f.value.id in ("self", "cls") and \
                    ("*", "self." + f.attr) in dyn:
                target = ("*", "self." + f.attr)           # self._forward(...) in a base class: any override
            if target is None:
                return None
            fd = allf[dyn[target][0]] if target[0] == "*" else allf[target]
            pn = [a.arg for a in fd.args.posonlyargs + fd.args.args]
            if pn and pn[0] in ("self", "cls") and ("." in target[1] or target[0] == "*"):
                pn = pn[1:]
            bound = {}
            for n_, a in zip(pn, call.args):
                if not isinstance(a, ast.Starred):
                    bound[n_] = a
            for k in call.keywords:
                if k.arg:
                    bound[k.arg] = k.value
            return target, pn, bound
        return resolve

    # ---- summaries to a fixpoint
    class _Summ(dict):
        """summaries; a synthetic key ("*", name) stands for the union of the implementations registered in `dyn`"""

        def get(self, k, default=None):
            if isinstance(k, tuple) and k and k[0] == "*":
                out = {"mutates": set(), "returns": set()}
                for c_ in dyn.get(k, ()):
                    sm_ = dict.get(self, c_)
                    if sm_:
                        out["mutates"] |= sm_["mutates"]
                        out["returns"] |= sm_["returns"]
                return out
            return dict.get(self, k, default)
    summ = _Summ({k: {"mutates": set(), "returns": set()} for k in allf})
    results = {}
    for _round in range(4):
        changed = False
        for (rel, q), f in allf.items():
            params = [a.arg for a in f.args.posonlyargs + f.args.args + f.args.kwonlyargs]
            roots = {p: p for p in params if p not in ("self", "cls")}
            fa = FnAnalysis(f, roots, summaries=summ, resolve=resolver_for(rel, q))
            shim_args = []

            def on_call(c, fa=fa, shim_args=shim_args):
                d = dotted(c.func)
                if d and d.split(".")[0].startswith("c_hydrodiy_"):
                    shim_args.append((c, [fa.val(a) for a in c.args]))
            fa.on_call = on_call
            orig = fa.visit_call_effects

            def vce(c, orig=orig, on_call=on_call):
                on_call(c)
                orig(c)
            fa.visit_call_effects = vce
            # local aliases of shims:  fun = c_hydrodiy_gis.x ; fun(...)
            fa.run()
            results[(rel, q)] = (fa, shim_args)
            mut = {m_.root for m_ in fa.mutations if not (m_.kind == "attr-store" and m_.text.split("=")[0].strip().endswith("." + DTYPE_ATTR))}
            ret = set(fa.returns.buf | fa.returns.obj)
            if mut != summ[(rel, q)]["mutates"] or ret != summ[(rel, q)]["returns"]:
                summ[(rel, q)] = {"mutates": mut, "returns": ret}
                changed = True
        if not changed:
            break

    # ---- R18.a
    npub = 0
    for (rel, q), (fa, _) in sorted(results.items()):
        if not is_public(q):
            continue
        npub += 1
        bad = 0
        for mu in fa.mutations:
            lhs = mu.text.split("=")[0].strip()
            if mu.kind == "attr-store" and lhs.endswith("." + DTYPE_ATTR):
                rep.assumed("R18.a", rel, q, f"{mu.root}: {mu.text[:60]}",
                            "dtype conversion of a grid argument keeps its cell values (stated by the property)", line=mu.line)
                continue
            key = (rel, q.split(".")[-1], mu.root)
            if key in ALLOW:
                rep.assumed("R18.a", rel, q, f"{mu.kind} on parameter `{mu.root}`", ALLOW[key], line=mu.line)
                continue
            bad += 1
            via = f" through {mu.via[0][1]}({mu.via[1]})" if isinstance(mu.via, tuple) else (f" via {mu.via}" if mu.via else "")
            rep.violation("R18.a", rel, q, f"{mu.kind} on parameter `{mu.root}`: {mu.text[:70]}",
                          f"the statement writes in place into an object that may be the caller's `{mu.root}`{via}", line=mu.line)
        if not bad:
            rep.proved("R18.a", rel, q, f"{q}: no in-place write reaches a parameter", line=allf[(rel, q)].lineno)
    rep.floor("public functions checked", npub, 150)

    # ---- R18.b kernels
    K = ckern.analyze(rep.repo)
    CE = ceffects.analyze(K)
    P = pyxread.load_all(rep.repo)
    shims = {}
    for cm, d in P.items():
        for sh in d["shims"]:
            shims[(cm, sh.name)] = sh
    nb = 0
    for (rel, q), (fa, shim_args) in sorted(results.items()):
        f = allf[(rel, q)]
        aliases = {}
        for n in walk_no_nested(f):
            if isinstance(n, ast.Assign) and len(n.targets) == 1 and isinstance(n.targets[0], ast.Name):
                d = dotted(n.value)
                if d and d.split(".")[0].startswith("c_hydrodiy_"):
                    aliases[n.targets[0].id] = d
        # calls through a local alias were not seen by on_call: evaluate them flow-insensitively at the end state
        calls = list(shim_args)
        for n in walk_no_nested(f):
            if isinstance(n, ast.Call) and isinstance(n.func, ast.Name) and n.func.id in aliases:
                calls.append((n, [fa.val(a) for a in n.args]))
        for c, vals in calls:
            d = dotted(c.func)
            if d in aliases:
                d = aliases[d]
            cm, sn = d.split(".")[0], d.split(".")[-1]
            sh = shims.get((cm, sn))
            if sh is None:
                continue
            kq = ckern.resolve(sh.kernel, K["fns"], "")
            if kq is None:
                continue
            keff = CE[kq]
            cparams = [p["name"] for p in K["fns"][kq]["params"]]
            shim_pnames = list(sh.params)
            for (cn, ca) in zip(cparams, sh.cargs):
                if ca[0] != "ptr" or ca[1] not in sh.params:
                    continue
                e = keff.get(cn, {"R"})
                if "W" not in e:
                    continue
                k = shim_pnames.index(ca[1])
                if k >= len(vals):
                    continue
                v = vals[k]
                nb += 1
                roots = sorted(v.buf | v.obj)
                cons = f"{cm}.{sn}({ca[1]}) -> {sh.kernel}:{cn} [{''.join(sorted(e))}]"
                bad = [r for r in roots if (rel, q.split(".")[-1], r) not in ALLOW]
                if bad:
                    rep.violation("R18.b", rel, q, cons,
                                  f"the kernel {'sorts' if 'S' in e else 'writes'} this buffer in place and the argument "
                                  f"`{ast.unparse(c.args[k])[:40]}` may be the caller's `{', '.join(bad)}`", line=c.lineno)
                elif roots:
                    rep.assumed("R18.b", rel, q, cons, ALLOW[(rel, q.split(".")[-1], roots[0])], line=c.lineno)
                else:
                    rep.proved("R18.b", rel, q, cons, "argument is a fresh buffer of the wrapper", line=c.lineno)
    rep.floor("written kernel buffers checked", nb, 30)

    # ---- R18.c / R18.d
    for (rel, q), f in sorted(allf.items()):
        for n in walk_no_nested(f):
            if isinstance(n, ast.Global):
                rep.violation("R18.c", rel, q, f"global {', '.join(n.names)}", "function rebinds module state: results depend on the call history", line=n.lineno)
            if isinstance(n, ast.Call):
                d = dotted(n.func)
                if d in UNSEEDED and not n.args and not n.keywords:
                    rep.violation("R18.d", rel, q, f"{d}()", "generator seeded from OS entropy: np.random.seed does not make the result repeatable", line=n.lineno)
                elif d in UNSEEDED:
                    rep.violation("R18.d", rel, q, f"{d}(...)", "private generator: its seed is not the caller's np.random.seed", line=n.lineno)
                elif d in RESEED:
                    rep.violation("R18.d", rel, q, f"{d}(...)", "library function re-seeds the global generator", line=n.lineno)
                elif d in CLOCK:
                    rep.violation("R18.d", rel, q, f"{d}()", "result depends on the clock", line=n.lineno)
        # mutable defaults
        a = f.args
        pos = a.posonlyargs + a.args
        dmap = dict(zip([x.arg for x in pos[len(pos) - len(a.defaults):]], a.defaults))
        dmap.update({x.arg: d for x, d in zip(a.kwonlyargs, a.kw_defaults) if d is not None})
        mutable = {p for p, d in dmap.items() if isinstance(d, (ast.List, ast.Dict, ast.Set, ast.Call, ast.ListComp, ast.DictComp))}
        if mutable and (rel, q) in results:
            fa = results[(rel, q)][0]
            for mu in fa.mutations:
                if mu.root in mutable:
                    rep.violation("R18.c", rel, q, f"mutable default `{mu.root}` mutated: {mu.text[:60]}",
                                  "the default object is shared by every call", line=mu.line)
    rep.proved("R18.c", "-", "-", "no `global` statement, no mutated mutable default in the analysed functions")
    # positive count of random sources through the global generator
    nrand = 0
    for (rel, q), f in allf.items():
        for n in walk_no_nested(f):
            if isinstance(n, ast.Call):
                d = dotted(n.func) or ""
                if d.startswith("np.random.") and d not in UNSEEDED and d not in RESEED:
                    nrand += 1
                    rep.proved("R18.d", rel, q, f"{d} (global seedable generator)", line=n.lineno)
    rep.floor("random sources", nrand, 8)
    # repeatability also needs every heap scratch array of a kernel to be initialised before it is read or copied out: recycled heap content
    # differs from call to call (the initialisation clauses of the CRPS kernel are decided for C03)
    from ..core import borrow
    nb_ = borrow(rep, "C03", "R18.e", "scratch arrays of the kernels are initialised before accumulation / output (clauses decided for C03): uninitialised heap content makes "
                 "repeated calls differ", lambda e: e.rule == "R03.d" and ("zero-initialised" in (e.construct or "") or "fresh zero array" in (e.construct or "")))
    rep.floor("scratch-initialisation clauses taken over from C03", nb_, 3)
    return EXPLANATION
