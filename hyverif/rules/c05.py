"""C05 -- native kernels never touch memory outside their buffers.

Layers: (A) obligations inside every kernel reachable from a shim (range analysis E2),
(B) shim agreement and extent provision S1-S4 (E4), (C) Python call sites (E6): residual
requirements, error discipline.  See DESIGN.md section 5/C05."""
import ast
import os
import re

from ..core import AnalysisError
from ..poly import Poly, _p
from .. import ckern, pyxread, xlayer, pyshape
from ..crange import Prover, State, is_int_type
from ..cfront import strip

EXPLANATION = (
    "Static memory-safety argument over three layers: symbolic range analysis of every C kernel reachable from a "
    "Cython shim (subscripts, dereferences, integer division, float-to-integer casts, callee preconditions), "
    "agreement of the shim prototypes/dtypes with the kernels and provision of the kernels' inferred buffer "
    "extents and preconditions by the shims' asserts, and discharge of the remaining requirements plus "
    "error-code discipline at every Python call site.  Nothing is executed.")

# obligations discharged by a reviewed manual argument: key -> reason  (one construct per line)
ASSUMED = {
}

# kernels allowed to return negative codes never occur today; `> 0` tests are accepted only when the
# kernel's literal return values are all >= 0 (checked below).

INT32 = ("int",)


def reachable(K, roots):
    seen, todo = set(), list(roots)
    while todo:
        q = todo.pop()
        if q in seen or q not in K["graph"]:
            continue
        seen.add(q)
        todo.extend(K["graph"][q])
    return seen


def structured_only(K, rep):
    bad = {"GotoStmt", "SwitchStmt", "DoStmt", "LabelStmt", "IndirectGotoStmt"}

    def walk(n, fn):
        if n.get("kind") in bad:
            rep.error(f"{fn['file']}:{n.get('_line')}: {n['kind']} in {fn['name']}: the structured abstract "
                      f"interpreter is not sound on it")
        for c in n.get("inner", []):
            if c.get("kind"):
                walk(c, fn)
    for q, fn in K["fns"].items():
        walk(fn["body"], fn)


def return_values(fn):
    """set of literal return values / 'expr' of a kernel (for the `> 0` error tests)"""
    vals = set()

    def walk(n):
        if n.get("kind") == "ReturnStmt":
            e = n["inner"][0] if n.get("inner") else None
            while e is not None and e.get("kind") in ("ImplicitCastExpr", "ParenExpr", "CStyleCastExpr"):
                e = e["inner"][0]
            if e is None:
                vals.add("void")
            elif e.get("kind") == "IntegerLiteral":
                vals.add(int(e["value"]))
            elif e.get("kind") == "UnaryOperator" and e.get("opcode") == "-":
                vals.add("neg")
            elif e.get("kind") == "BinaryOperator" and e.get("opcode") == "+":
                vals.add("pos")          # ERROR_BASE + __LINE__
            else:
                vals.add("expr")
        for c in n.get("inner", []):
            if c.get("kind"):
                walk(c)
    walk(fn["body"])
    return vals


def ctype_of_param(p):
    return pyxread.norm_ctype(p["type"]["qualType"])


def run(rep):
    repo = rep.repo
    K = ckern.analyze(repo)
    P = pyxread.load_all(repo)
    fns, summ = K["fns"], K["summ"]
    rep.rule("R05.B", "every subscript / dereference stays inside its object (local arrays, malloc blocks; pointer "
                      "parameters yield a required extent)")
    rep.rule("R05.DZ", "integer / and % have a non-zero divisor")
    rep.rule("R05.FC", "double -> integer conversions have a finite, in-range operand")
    rep.rule("R05.PRE", "callee preconditions hold at every internal call")
    rep.rule("R05.OV", "32-bit integer products cannot overflow (inside a bounded index, bounded by a block size, or numerically small)")
    rep.rule("R05.S1", "extern prototype in the .pyx equals the C definition (count, order, types)")
    rep.rule("R05.S2", "every pointer argument is the data of an ndarray of the same element type, C-contiguous, not None")
    rep.rule("R05.S3", "buffer extent provided by shim + Python caller >= extent required by the kernel")
    rep.rule("R05.S4", "kernel preconditions on integer parameters established by shim + Python caller")
    rep.rule("R05.E", "kernel error codes are tested at the Python call site and raise")
    rep.rule("R05.MF", "malloc results are null-checked, freed exactly once on every path, not used after free")
    rep.assume("arrays and allocated blocks have fewer than 2^31 elements")
    rep.assume("a literal multiple c*x (|c| <= 16) of a value bounded by an array extent does not overflow int, like the sums x+x the "
               "overflow rule does not question: arrays are taken to hold fewer than 2^27 elements there")
    rep.assume("numpy hands C-contiguous buffers of the declared dtype to the typed Cython signatures (checked by S2)")
    rep.assume("Grid dimensions nrows/ncols are non-negative (np.zeros((nrows, ncols)) in Grid.__init__ rejects negatives)")
    rep.assume("libc qsort/malloc/free/math functions are memory safe for correct arguments")
    rep.assume("Cython `assert` statements in the shims are executed (no -O / CYTHON_WITHOUT_ASSERTIONS build)")
    structured_only(K, rep)

    shims_by_module = {}
    roots = set()
    nshims = 0
    for cm, d in P.items():
        shims_by_module[cm] = {}
        for sh in d["shims"]:
            shims_by_module[cm][sh.name] = sh        # a later def of the same name wins, as in Python
            nshims += 1
            r = ckern.resolve(sh.kernel, fns, "")
            if r is None:
                rep.violation("R05.S1", sh.file, sh.name, sh.kernel, "extern function has no C definition in the kernel sources")
            else:
                roots.add(r)
    reach = reachable(K, roots)
    skipped = sorted(set(fns) - reach)
    rep.unit(f"{len(K['files'])} kernel files: {', '.join(K['files'])}")
    rep.unit(f"{len(fns)} C functions, {len(reach)} reachable from a shim; not reachable (no obligations): {', '.join(skipped)}")
    rep.floor("kernel files", len(K["files"]), 14)
    rep.floor("reachable kernel functions", len(reach), 40)
    rep.floor("cython shims", nshims, 36)

    # ---------------- A. kernel obligations --------------------------------
    nobl = 0
    for q in sorted(reach):
        if q.startswith("compare@"):
            continue
        sm = summ.get(q)
        fn = fns[q]
        if sm is None:
            rep.error(f"no summary for reachable kernel {q}")
            continue
        for o in sm.proved + sm.unproven:
            nobl += 1
            rule = {"B": "R05.B", "DZ": "R05.DZ", "FC": "R05.FC", "PRE": "R05.PRE", "OV": "R05.OV"}.get(o.kind, "R05.B")
            cons = f"{o.txt}:{o.side}"
            if o.proved:
                rep.proved(rule, fn["file"], fn["name"], cons, line=o.line)
            else:
                from ..core import mkkey
                k = mkkey(rule, fn["file"], fn["name"], cons)
                if k in ASSUMED:
                    rep.assumed(rule, fn["file"], fn["name"], cons, ASSUMED[k], line=o.line)
                elif (o.detail or "").startswith("unknown array"):
                    # the analysis lost track of which buffer the pointer refers to (a walking pointer, a pointer chosen at run time): nothing is
                    # known about the access, in either direction
                    rep.undecided(rule, fn["file"], fn["name"], cons, "the buffer behind this pointer is not tracked by the range analysis", line=o.line)
                else:
                    rep.violation(rule, fn["file"], fn["name"], cons, f"not provable: {o.detail}", line=o.line)
    rep.floor("kernel obligations", nobl, 900)

    # ---------------- MF: malloc / free discipline -------------------------------
    from .. import cmalloc
    nm = 0
    for q in sorted(reach):
        fn = fns[q]
        for res in cmalloc.check(fn):
            nm += 1
            rep.check(res.ok, "R05.MF", fn["file"], fn["name"], res.construct, res.detail, line=res.line)
    rep.floor("malloc blocks", nm, 8)

    # ---------------- B. shims --------------------------------------------------
    residuals = {}     # (cmodule, shim name) -> list of residual dicts
    for cm, d in P.items():
        for sh in shims_by_module[cm].values():
            kq = ckern.resolve(sh.kernel, fns, "")
            if kq is None:
                continue
            fn, sm = fns[kq], summ[kq]
            ext = d["externs"][sh.kernel]
            cparams = [(p["name"], ctype_of_param(p)) for p in fn["params"]]
            # S1
            okc = len(ext["params"]) == len(cparams)
            det = ""
            if okc:
                for (et, en), (cn, ct) in zip(ext["params"], cparams):
                    if et != ct:
                        okc = False
                        det = f"parameter `{en}`: pyx says `{et}`, C definition says `{ct}` ({cn})"
                        break
            else:
                det = f"pyx declares {len(ext['params'])} parameters, C definition has {len(cparams)}"
            hp = K["protos"].get(sh.kernel)
            if okc and hp is not None:
                hparams = [pyxread.norm_ctype(t) for _, t in hp["params"]]
                if hparams != [ct for _, ct in cparams]:
                    okc, det = False, f"header {hp['file']} declares ({', '.join(hparams)})"
            rep.check(okc, "R05.S1", sh.file, sh.name, f"{sh.kernel} prototype", det, line=sh.line)
            if len(sh.cargs) != len(cparams):
                rep.violation("R05.S1", sh.file, sh.name, f"{sh.kernel} call arity",
                              f"{len(sh.cargs)} arguments for {len(cparams)} parameters", line=sh.line)
                continue
            # bindings
            cmap, ptr = {}, {}
            for (cn, ct), ca in zip(cparams, sh.cargs):
                if ct.endswith("*"):
                    if ca[0] != "ptr":
                        rep.violation("R05.S2", sh.file, sh.name, f"{sh.kernel}:{cn}", "pointer parameter bound to a non-buffer expression", line=sh.line)
                        continue
                    arr, cast = ca[1], ca[2]
                    ptr[cn] = arr
                    if arr in sh.cdef_arrays:
                        et = sh.cdef_arrays[arr][0]
                        ok = (et + "*") == ct
                        rep.check(ok, "R05.S2", sh.file, sh.name, f"{sh.kernel}:{cn}<-{arr}", f"local C array of `{et}` passed as `{ct}`", line=sh.line)
                    elif arr in sh.params and sh.params[arr].kind == "arr":
                        pa = sh.params[arr]
                        ok = (pa.ctype + "*") == ct and cast == ct and pa.mode == "c" and pa.notnone
                        rep.check(ok, "R05.S2", sh.file, sh.name, f"{sh.kernel}:{cn}<-{arr}",
                                  f"ndarray[{pa.ctype}, mode={pa.mode}, not None={pa.notnone}] cast `{cast}` passed as `{ct}`", line=sh.line)
                    else:
                        rep.violation("R05.S2", sh.file, sh.name, f"{sh.kernel}:{cn}<-{arr}", "buffer of unknown origin", line=sh.line)
                else:
                    if ca[0] != "expr":
                        rep.violation("R05.S2", sh.file, sh.name, f"{sh.kernel}:{cn}", "scalar parameter bound to a buffer", line=sh.line)
                        continue
                    if is_int_type(ct):
                        cmap[cn] = pyxread.shape_poly(ca[1], sh)
            # facts from asserts
            eqs = {}
            extra_lb = {}
            for t in sh.asserts:
                if isinstance(t, ast.Compare) and len(t.ops) == 1 and isinstance(t.ops[0], ast.Eq):
                    pl, pr = pyxread.shape_poly(t.left, sh), pyxread.shape_poly(t.comparators[0], sh)
                    if pl is None or pr is None:
                        continue
                    for a, b in ((pl, pr), (pr, pl)):
                        a2, b2 = _canon(a, eqs), _canon(b, eqs)
                        if _bare(a2) and _bare(a2) not in b2.symbols():
                            eqs[_bare(a2)] = b2
                            break
            for arr in sh.reductions:
                extra_lb[pyxread.shape_sym(arr, 0)] = 1

            def provided(arr):
                if arr in sh.cdef_arrays:
                    return Poly.const(sh.cdef_arrays[arr][1])
                pa = sh.params.get(arr)
                if pa is None or pa.kind != "arr":
                    return None
                p = Poly.const(1)
                for k in range(pa.ndim):
                    p = p * Poly.sym(pyxread.shape_sym(arr, k))
                return p

            def nonneg(p, pathfacts):
                p = _canon(p, eqs)
                st = State()
                facts = []
                for s_, (lb, ub) in pathfacts.items():
                    v = cmap.get(s_)
                    if v is None:
                        continue
                    v = _canon(v, eqs)
                    if lb is not None:
                        if _bare(v):
                            st.sym_lb.setdefault(_bare(v), []).append(Poly.const(lb))
                        elif not v.is_const():
                            facts.append(v - lb)
                    if ub is not None and _bare(v):
                        st.sym_ub.setdefault(_bare(v), []).append(Poly.const(ub))
                for f in facts:
                    st.facts.append(f)
                syms = set(p.symbols())
                for f in facts:
                    syms |= f.symbols()
                for s_ in syms:
                    if ".s" in s_:
                        st.sym_lb.setdefault(s_, []).append(Poly.const(extra_lb.get(s_, 0)))
                return Prover({}).nonneg(p, st)

            def inst(q):
                for s_ in list(q.symbols()):
                    v = cmap.get(s_)
                    if v is None:
                        return None
                    q = q.subst(s_, v)
                return q
            res = []
            # S4 preconditions
            for s_, c in sm.pre:
                v = cmap.get(s_)
                cons = f"{sh.kernel}: {s_} >= {c}"
                if v is not None and nonneg(v - c, {}):
                    rep.proved("R05.S4", sh.file, sh.name, cons, f"{s_} := {v}", line=sh.line)
                else:
                    res.append({"kind": "pre", "cons": cons, "need": None if v is None else _canon(v - c, eqs),
                                "facts": {}, "text": f"{s_} >= {c} with {s_} := {v}"})
            # S3 extents
            for pn, reqs in sm.req_ext.items():
                arr = ptr.get(pn)
                if arr is None:
                    continue
                prov = provided(arr)
                for polys, line, txt, pf in reqs:
                    cons = f"{sh.kernel}:{pn}<-{arr}:{txt}"
                    if prov is None:
                        rep.violation("R05.S3", sh.file, sh.name, cons, "extent of the buffer unknown", line=sh.line)
                        continue
                    ok, need = False, None
                    cands = [(qy, pf, []) for qy in polys]
                    alt = getattr(sm, "alt", None)
                    if alt is not None and all(cmap.get(s_) is not None for s_, c in alt.pre):
                        extra = [_canon(cmap[s_] - c, eqs) for s_, c in alt.pre if not nonneg(cmap[s_] - c, {})]
                        for polys2, line2, txt2, pf2 in alt.req_ext.get(pn, []):
                            if line2 == line and txt2 == txt:
                                cands += [(qy, pf2, extra) for qy in polys2]
                    alts = []
                    for qy, pfx, extra in cands:
                        qi = inst(qy)
                        if qi is None:
                            continue
                        dlt = prov - qi
                        if nonneg(dlt, pfx):
                            if not extra:
                                ok = True
                                break
                            alts.append((Poly.const(0), pfx, extra))
                            continue
                        alts.append((_canon(dlt, eqs), pfx, extra))
                        if need is None:
                            need = _canon(dlt, eqs)
                    if ok:
                        rep.proved("R05.S3", sh.file, sh.name, cons, f"provided {prov} >= required", line=sh.line)
                    else:
                        def pfi_of(pfx):
                            out = {}
                            for s_, b in pfx.items():
                                v = cmap.get(s_)
                                out[s_] = (None if v is None else _canon(v, eqs), b)
                            return out
                        res.append({"kind": "extent", "cons": cons, "need": need,
                                    "alts": [(n_, pfi_of(pfx), ex) for n_, pfx, ex in alts],
                                    "facts": pfi_of(pf),
                                    "text": f"{fn['file']}:{line} `{txt}` needs extent({arr}) >= {polys[0]}"
                                            f" i.e. {need} >= 0" + (f" when {_fmt_pf(pf)}" if pf else "")})
            residuals[(cm, sh.name)] = (sh, res)

    # ---------------- C. Python call sites -------------------------------------------
    sites, R = xlayer.find_sites(repo, shims_by_module)
    rep.unit(f"{len(sites)} Python call sites of the shims in {len(xlayer.CALLER_MODULES)} modules")
    rep.floor("python call sites", len(sites), 26)
    called = set()
    for s in sites:
        sh = s.shim
        called.add((s.cmodule, sh.name))
        where = f"{s.mod.rel}"
        fq = f"{s.func.name}"
        # (e) error discipline
        kq = ckern.resolve(sh.kernel, fns, "")
        ok, how, _ = xlayer.error_discipline(s)
        if ok and how == ">0" and kq is not None:
            rv = return_values(fns[kq])
            if "neg" in rv or any(isinstance(v, int) and v < 0 for v in rv):
                ok, how = False, "test `> 0` but the kernel can return a negative code"
        rep.check(ok, "R05.E", where, fq, f"{s.cmodule}.{sh.name} return code", how, line=s.call.lineno)
        # substitution shim symbol -> python poly
        sub, missing = {}, set()
        for pn, pa in sh.params.items():
            got = s.args.get(pn)
            if pa.kind == "arr":
                for k in range(pa.ndim):
                    sym = pyxread.shape_sym(pn, k)
                    d = None
                    if got is not None:
                        v = got[1]
                        if v.shape is None and v.tup is None and v.ival is None:
                            # the typed signature rejects any other rank: at the kernel call the rank is pa.ndim
                            v.shape = s.ev.set_shape_unknown_rank(v, pa.ndim)
                        if v.shape is not None and len(v.shape) == pa.ndim:
                            d = v.shape[k]
                    if d is None:
                        missing.add(sym)
                    else:
                        sub[sym] = d
            elif pa.ctype in ("int", "long long"):
                v = got[1] if got is not None else None
                if v is not None and v.ival is not None:
                    sub[pn] = v.ival
                else:
                    missing.add(pn)
        _, res = residuals.get((s.cmodule, sh.name), (None, []))
        for r in res:
            cons = r["cons"]
            need = r["need"]
            if need is None:
                rep.violation("R05.S3" if r["kind"] == "extent" else "R05.S4", where, fq, cons,
                              f"requirement cannot be expressed at the shim: {r['text']}", line=s.call.lineno)
                continue
            rule = "R05.S3" if r["kind"] == "extent" else "R05.S4"
            alts = r.get("alts") or [(need, r["facts"], [])]
            done, why = False, ""
            for need_a, facts_a, extra_a in alts:
                # vacuity: a path fact contradicted by a constant argument
                vac = False
                env = s.env.copy()
                for ks, (vp, (lb, ub)) in facts_a.items():
                    if vp is None:
                        continue
                    pv = _subst(vp, sub)
                    if pv is None:
                        continue
                    pv = env.canon(pv)
                    if pv.is_const():
                        c = pv.cval()
                        if (lb is not None and c < lb) or (ub is not None and c > ub):
                            vac = True
                    else:
                        b = _bare(pv)
                        if b and lb is not None:
                            env.lb[b] = max(env.lb.get(b, 0), int(lb))
                        elif lb is not None:
                            env.vars["@facts"] = list(env.vars.get("@facts", [])) + [pv - lb]
                if vac:
                    rep.proved(rule, where, fq, cons, "vacuous at this call site (path condition contradicted by a constant argument)", line=s.call.lineno)
                    done = True
                    break
                polys_ = [need_a] + list(extra_a)
                ps = [_subst(x, sub) for x in polys_]
                if all(x is not None and pyshape.prove_nonneg(x, env) for x in ps):
                    rep.proved(rule, where, fq, cons, "established by the caller: " + ", ".join(f"{env.canon(x)} >= 0" for x in ps), line=s.call.lineno)
                    done = True
                    break
                if not why:
                    unk = sorted(set().union(*[x.symbols() for x in polys_]) & missing)
                    why = ("unknown: " + ", ".join(unk)) if any(x is None for x in ps) else \
                        "; ".join(f"{env.canon(x)} >= 0" for x in ps) + " not provable"
            if not done and s.env is not None and s.env.vars.get("@opaque_guards"):
                rep.undecided(rule, where, fq, cons, f"{r['text']}; not established by what this reader understands of the caller, which has a raising guard on shapes "
                              f"it could not interpret: `{s.env.vars['@opaque_guards'][0]}`", line=s.call.lineno)
                done = True
            if not done:
                rep.violation(rule, where, fq, cons,
                              f"{r['text']}; not established by the shim's asserts nor by the caller ({why})" + (f" [kernel in {fns[kq]['file']}]" if kq in fns else ""),
                              line=s.call.lineno)
    # shims nobody calls from Python: residuals must be empty (they are directly callable)
    for (cm, name), (sh, res) in residuals.items():
        if (cm, name) in called:
            continue
        for r in res:
            rep.violation("R05.S3" if r["kind"] == "extent" else "R05.S4", sh.file, sh.name, r["cons"],
                          f"{r['text']}; the shim has no Python wrapper that could establish it", line=sh.line)
    return EXPLANATION


def _bare(p):
    if len(p.t) == 1:
        (m, c), = p.t.items()
        if c == 1 and len(m) == 1 and m[0][1] == 1:
            return m[0][0]
    return None


def _canon(p, eqs):
    p = _p(p)
    for _ in range(8):
        ch = False
        for s_ in list(p.symbols()):
            if s_ in eqs:
                p = p.subst(s_, eqs[s_])
                ch = True
        if not ch:
            break
    return p


def _subst(p, sub):
    for s_ in list(p.symbols()):
        if s_ not in sub:
            return None
    for s_ in list(p.symbols()):
        p = p.subst(s_, sub[s_])
    return p


def _fmt_pf(pf):
    out = []
    for s_, (lb, ub) in sorted(pf.items()):
        if lb is not None and ub is not None and lb == ub:
            out.append(f"{s_}=={lb}")
        else:
            if lb is not None:
                out.append(f"{s_}>={lb}")
            if ub is not None:
                out.append(f"{s_}<={ub}")
    return ", ".join(out)
