"""C08 -- temporal aggregation and disaggregation reduce by group and conserve totals (structural clauses)."""
import ast
import itertools

from ..core import AnalysisError
from ..cfront import strip, text
from .. import cq, pq, ckern, xlayer, pyxread
from ..ceval import CEval, find_all, loop_parts, body_stmts, loop_var, stores_to
from ..formula import Canon, Ratio, Undecided, show, num
from ..pyfront import Mod, dotted, const_value

EXPLANATION = (
    "The single-pass kernels c_aggregate and c_flathomogen are treated as transducers over their running state "
    "(reduction, count of valid values, count of missing values, group counter / group start): for every operator "
    "and every truth assignment of the predicates that drive one step (new group, missing input, first valid value "
    "of the group, input larger than the running value, some valid value seen, too many missing values) the symbolic "
    "state update and the value flushed to the output are compared with a reference reduce-by-group semantics written "
    "in the checker (sum, mean, maximum and last value of the NON-missing inputs; NaN when more than maxnan are "
    "missing).  The monotonic-index rejection must come before any state change, the two flush sites (group change "
    "and end of data) must agree, the wrapper must raise on the error code and truncate with the group count the "
    "kernel reports.  monthly2daily: the flat branch appends its sentinel exactly one calendar month after the last "
    "month and divides by days_in_month; the cubic branch's constraint matrix equals the f(0)=0, f(1)=y, f'(0), f'(1) "
    "system.  The sums themselves (floating point) and the cubic arithmetic are not decided.")

NAN = ('nan',)


def int_decide(expr, op, rhs, facts):
    """decide `expr op rhs` for integer state expressions of the form SYM + k or k.  facts: SYM -> 'zero'|'pos'"""
    cn = Canon()
    try:
        d = cn.ratio(('sub', expr, rhs))
    except Undecided:
        return None
    if d.is_const():
        v = d.cval()
        return {"<": v < 0, "<=": v <= 0, ">": v > 0, ">=": v >= 0, "==": v == 0, "!=": v != 0}[op]
    syms = d.n.symbols()
    if len(syms) == 1 and d.d.is_const():
        s_ = next(iter(syms))
        sp = d.n.split_linear(s_)
        if sp and sp[0].is_const() and sp[0].cval() == 1 and sp[1].is_const() and s_ in facts:
            k = sp[1].cval() / d.d.cval()       # SYM + k  op 0
            if facts[s_] == 'zero':
                v = k
                return {"<": v < 0, "<=": v <= 0, ">": v > 0, ">=": v >= 0, "==": v == 0, "!=": v != 0}[op]
            if facts[s_] == 'pos':               # SYM >= 1
                if k >= 0:
                    return {"<": False, "<=": False, ">": True, ">=": True, "==": False, "!=": True}[op]
                if k == -1:
                    return {">=": True, "<": False}.get(op)
    return None


def run(rep):
    rep.rule("R08.a", "an index that decreases is rejected before any state change; the wrapper raises and truncates with the reported group count")
    rep.rule("R08.b", "c_aggregate step == reference reduce-by-group transducer (sum / mean / max / last of the non-missing inputs, NaN policy) for every predicate assignment")
    rep.rule("R08.c", "the flush at the end of the data agrees with the flush at a group change")
    rep.rule("R08.d", "c_flathomogen step and group write-back == reference (mean of the group to non-missing positions, NaN kept)")
    rep.rule("R08.e", "monthly2daily: flat sentinel one calendar month after the last month, division by days_in_month; cubic constraint matrix")
    rep.assume("floating-point accumulation error is not decided; the reference semantics is the property's: reductions over non-missing inputs only")
    K = ckern.analyze(rep.repo)
    if K["fns"].get("c_aggregate") is None or K["fns"].get("c_flathomogen") is None:
        raise AnalysisError("data/c_dutils.c: c_aggregate / c_flathomogen not found")
    agg = ckern.normalised(K, "c_aggregate", rep.repo)
    fh = ckern.normalised(K, "c_flathomogen", rep.repo)
    file = agg["file"]
    rep.unit(f"{file}: c_aggregate, c_flathomogen; data/dutils.py: aggregate, flathomogen, monthly2daily")

    # =============================== c_aggregate ==========================================================================
    top = [s for s in agg["body"].get("inner", []) if s.get("kind")]
    loop = [s for s in top if s.get("kind") == "ForStmt"]
    if len(loop) != 1:
        raise AnalysisError(f"{file}: c_aggregate main loop not found")
    loop = loop[0]
    iv = loop_var(loop)
    stm = body_stmts(loop_parts(loop)[3])
    tail = top[top.index(loop) + 1:]
    # R08.a rejection first
    def is_rejection(s, v):
        return s.get("kind") == "IfStmt" and bool(find_all(s, lambda n: n.get("kind") == "ReturnStmt")) and \
            (cq.same_cond(s["inner"][0], f"aggindex[{v}] < iaprev", True) or cq.same_cond(s["inner"][0], "ia < iaprev", True))
    rej = [k for k, s in enumerate(stm) if is_rejection(s, iv)]
    first_change = min([k for k, s in enumerate(stm) if find_all(s, lambda n: n.get("kind") in ("CompoundAssignOperator",) or
                        (n.get("kind") == "UnaryOperator" and n.get("opcode") in ("++", "--")) or
                        (n.get("kind") == "BinaryOperator" and n.get("opcode") == "=" and text(n["inner"][0]) not in ("ia",)))] or [99])
    rep.check(bool(rej) and rej[0] <= first_change, "R08.a", file, "c_aggregate", "decreasing index rejected (error return) before any accumulation or store",
              f"rejection at statement {rej[0] if rej else None}, first state change at {first_change}", line=loop.get("_line"))

    nstep, bad = 0, []
    flush_seen = {}
    for op, G, N, F, C, M, X in itertools.product([0, 1, 2, 3], [True, False], [True, False], [True, False], [True, False], [True, False], [True, False]):
        # G new group, N missing input, F no valid value yet in the *current* group (after a possible reset),
        # C input > running value, M some valid value in the group being flushed, X too many missing in that group
        if G and not F:
            continue             # after a reset the group has no valid value yet
        if not G and (M is False or X is True):
            continue             # M, X only matter for the flush: keep one representative when there is no flush
        if not G and F != (not M if False else F):
            pass
        nstep += 1
        facts = {"NA0": 'pos' if (M if G else not F) else 'zero'}

        def oracle(c, op=op, G=G, N=N, F=F, C=C, M=M, X=X, facts=facts):
            if c[0] in ('and', 'or', 'not'):
                from .c03 import _bool
                return _bool(c, oracle)
            if c[0] == 'call' and c[1] == 'isnan':
                return N if show(c[2][0]) == "INP" else None
            if c[0] != 'cmp':
                return None
            o, a, b = c[1], c[2], c[3]
            sa, sb = show(a), show(b)
            if sa == "operator":
                r = int_decide(num(op), o, b, {})
                return r
            if {sa, sb} == {"ia", "iaprev"} or {sa, sb} == {"IA", "IAPREV"}:
                if o == "!=":
                    return G
                if o == "==":
                    return not G
                if o in ("<", ">"):
                    return False          # monotonic input (the rejection is checked separately)
            if sa == "INP" and "AGG0" in sb or (sa == "INP" and sb in ("AGG0", "0")):
                return C if o in (">", ">=") else (not C if o in ("<", "<=") else None)
            if "NN0" in sa and sb == "maxnan" and o == ">":
                cn = Canon()
                d = cn.ratio(a) - Ratio.sym("NN0")
                if d.is_zero():
                    return X
                return None
            if "NA0" in sa or sa.isdigit() or (a[0] in ('add', 'sub', 'num')):
                r = int_decide(a, o, b, facts)
                if r is not None:
                    return r
            if sa == "COUNT0" or "COUNT0" in sa:
                return False             # capacity check: count+1 >= nval handled by C05
            return None
        arrays = {"aggindex": lambda idx: ('sym', 'IA'), "inputs": lambda idx: ('sym', 'INP')}
        ce = CEval(oracle, arrays)
        env = {"agg": ('sym', 'AGG0'), "nagg": ('sym', 'NA0'), "nagg_nan": ('sym', 'NN0'), "count": ('sym', 'COUNT0'),
               "iaprev": ('sym', 'IAPREV'), "nan": NAN, "ia": ('sym', 'IA0')}
        stm2 = [s for s in stm if not is_rejection(s, iv)]
        try:
            ce._walk(stm2, env, [])
        except Undecided as ex:
            rep.undecided("R08.b", file, "c_aggregate", f"step op={op} G={G} N={N}", str(ex), line=loop.get("_line"))
            continue
        if any(r[0] not in ("end",) and not (isinstance(r[0], tuple)) for r in ce.returns if r[0] != "end") and len(ce.returns) != 1:
            pass
        # ---- reference
        A, NA, NNn, CNT = ('sym', 'AGG0'), ('sym', 'NA0'), ('sym', 'NN0'), ('sym', 'COUNT0')
        out = None
        if G:
            out = ('div', A, NA) if (op == 1 and M) else A
            if X:
                out = NAN
            flush_seen[(op, M, X)] = out
            A, NA, NNn, CNT = num(0), num(0), num(0), ('add', CNT, num(1))
        if N:
            NNn = ('add', NNn, num(1))
        else:
            NA = ('add', NA, num(1))
            if op <= 1:
                A = ('add', A, ('sym', 'INP'))
            elif op == 2:
                A = ('sym', 'INP') if (F or C) else A
            else:
                A = ('sym', 'INP')
        cn = Canon()
        got_out = [e for e in ce.effects if e.arr == "outputs"]
        okstate = all(cn.ratio(env[k]) == cn.ratio(w) for k, w in (("agg", A), ("nagg", NA), ("nagg_nan", NNn), ("count", CNT)))
        okout = (out is None and not got_out) or (out is not None and len(got_out) == 1 and cn.ratio(got_out[0].val) == cn.ratio(out)
                                                  and cn.ratio(got_out[0].idx) == cn.ratio(('sym', 'COUNT0')))
        if not (okstate and okout):
            opn = ["sum", "mean", "max", "tail"][op]
            bad.append(f"{opn}: new-group={G} missing-input={N} first-valid={F} input>running={C} flushed-group-has-valid={M} too-many-missing={X}: "
                       f"agg={show(env['agg'])[:50]} (ref {show(A)[:40]}), nagg={show(env['nagg'])} (ref {show(NA)}), nagg_nan={show(env['nagg_nan'])} (ref {show(NNn)}), "
                       f"flushed={show(got_out[0].val)[:40] if got_out else None} (ref {show(out) if out else None})")
    rep.check(not bad, "R08.b", file, "c_aggregate", f"step transducer == reduce-by-group reference for all {nstep} predicate assignments",
              " | ".join(bad[:3]) + (f" | ... {len(bad)} assignments differ" if len(bad) > 3 else ""), line=loop.get("_line"))
    rep.floor("aggregate step assignments", nstep, 90)
    # ---- final flush == in-loop flush
    badf = []
    for op, M, X in itertools.product([0, 1, 2, 3], [True, False], [True, False]):
        facts = {"NA0": 'pos' if M else 'zero'}

        def oracle2(c, op=op, M=M, X=X, facts=facts):
            if c[0] in ('and', 'or', 'not'):
                from .c03 import _bool
                return _bool(c, oracle2)
            if c[0] != 'cmp':
                return None
            o, a, b = c[1], c[2], c[3]
            if show(a) == "operator":
                return int_decide(num(op), o, b, {})
            if show(a) == "NN0" and show(b) == "maxnan" and o == ">":
                return X
            return int_decide(a, o, b, facts)
        ce = CEval(oracle2)
        env = {"agg": ('sym', 'AGG0'), "nagg": ('sym', 'NA0'), "nagg_nan": ('sym', 'NN0'), "count": ('sym', 'COUNT0'), "nan": NAN}
        try:
            ce._walk([s for s in tail if s.get("kind") != "ReturnStmt"], env, [])
        except Undecided as ex:
            rep.undecided("R08.c", file, "c_aggregate", f"final flush op={op}", str(ex), line=loop.get("_line"))
            continue
        cn = Canon()
        o_ = [e for e in ce.effects if e.arr == "outputs"]
        want = flush_seen.get((op, M, X))
        if want is None or len(o_) != 1 or not cn.ratio(o_[0].val) == cn.ratio(want) or not cn.ratio(o_[0].idx) == cn.ratio(('sym', 'COUNT0')):
            badf.append(f"op={op} has-valid={M} too-many-missing={X}: final flush stores {show(o_[0].val)[:40] if o_ else None}, group-change flush stores {show(want) if want else None}")
        ie = [e for e in ce.effects if e.arr == "iend"]
        if len(ie) != 1 or not cn.ratio(ie[0].val) == cn.ratio(('add', ('sym', 'COUNT0'), num(1))):
            badf.append(f"op={op}: iend[0] = {show(ie[0].val) if ie else None}, expected count+1 (number of groups)")
    rep.check(not badf, "R08.c", file, "c_aggregate", "flush at the end of the data == flush at a group change; iend[0] = number of groups", " | ".join(badf[:3]), line=loop.get("_line"))

    # =============================== c_flathomogen ==========================================================================
    ftop = [s for s in fh["body"].get("inner", []) if s.get("kind")]
    floop = [s for s in ftop if s.get("kind") == "ForStmt" and find_all(s, lambda n: n.get("kind") == "ForStmt" and n is not s)]
    if len(floop) != 1:
        raise AnalysisError(f"{file}: c_flathomogen main loop not found")
    floop = floop[0]
    fi = loop_var(floop)
    fstm = body_stmts(loop_parts(floop)[3])
    ftail = ftop[ftop.index(floop) + 1:]
    rej = [k for k, s in enumerate(fstm) if is_rejection(s, fi)]
    rep.check(bool(rej) and rej[0] <= 1, "R08.a", file, "c_flathomogen", "decreasing index rejected before any accumulation or store", "", line=floop.get("_line"))
    for kname, kst, kv, kline in (("c_aggregate", stm, iv, loop.get("_line")), ("c_flathomogen", fstm, fi, floop.get("_line"))):
        # the test compares the current index with the PREVIOUS one: evaluated from the top of the loop body with iaprev still holding
        # the value carried from the last iteration, some error return must be taken exactly under index < previous, before any store
        try:
            rce = cq.evaluate(kst, env={"iaprev": ('sym', 'IAPREV')})
        except Undecided as ex:
            rep.undecided("R08.a", file, kname, "decreasing index compared with the previous iteration's index", str(ex), line=kline)
            continue
        errs = [r for r in rce.returns if isinstance(r[0], tuple) and not cq.same_expr(r[0], "0")]
        def feasible(conds):
            for a_, b_ in ((0, 1), (1, 2), (0, 2)):
                ok_ = True
                for cnd, t in conds:
                    v = cq.int_eval(cnd, {kv: 0, "aggindex[0]": a_, "IAPREV": b_, "ia": a_})
                    if v is not None and bool(v) != t:
                        ok_ = False
                if ok_:
                    return True
            return False
        hit = [r for r in errs if cq.holds(r[1], f"aggindex[{kv}] < IAPREV", True) and feasible(r[1])]
        rep.check(bool(hit), "R08.a", file, kname, "the rejection compares the current index with the index of the previous iteration (not yet overwritten)",
                  f"{len(errs)} error return(s), none under `aggindex[{kv}] < <previous index>`", line=kline)
        # every way through one iteration decides the order test: a path that completes (falls through or `continue`s) without it lets a
        # decreasing index pass at the positions that take that path
        done = [f_ for f_ in rce.finals if f_[2] in ("end", "ContinueStmt")]
        skipping = [f_ for f_ in done if not cq.excluded(f_[1], f"aggindex[{kv}] < IAPREV", True) and feasible(f_[1])]
        if done:
            rep.check(not skipping, "R08.a", file, kname, "no iteration completes without the index-order test (an index that decreases ANYWHERE is rejected)",
                      f"{len(skipping)} of {len(done)} path(s) through the loop body skip it, e.g. under " +
                      (" & ".join(("" if t_ else "not ") + show(c_)[:50] for c_, t_ in skipping[0][1][:3]) if skipping else ""), line=kline, firm=True)
    badh, nh = [], 0
    wb_ref = {}
    for G, N, X in itertools.product([True, False], repeat=3):
        if not G and X:
            continue
        nh += 1

        def oracle(c, G=G, N=N, X=X):
            if c[0] in ('and', 'or', 'not'):
                from .c03 import _bool
                return _bool(c, oracle)
            if c[0] == 'call' and c[1] == 'isnan':
                return N if show(c[2][0]) == "INP" else None
            if c[0] != 'cmp':
                return None
            o, a, b = c[1], show(c[2]), show(c[3])
            if {a, b} == {"IA", "IAPREV"}:
                return G if o == "!=" else (not G if o == "==" else False)
            if a == "NN0" and b == "maxnan" and o == ">":
                return X
            return None
        # the inner write-back loop is evaluated separately: replace it by a marker call
        stm2 = []
        inner_loops = []
        for s in fstm:
            if is_rejection(s, fi):
                continue
            stm2.append(s)
        ce = CEval(oracle, {"aggindex": lambda idx: ('sym', 'IA'), "inputs": lambda idx: ('sym', 'INP')})
        env = {"agg": ('sym', 'AGG0'), "nagg": ('sym', 'NA0'), "nagg_nan": ('sym', 'NN0'), "start": ('sym', 'ST0'), "iaprev": ('sym', 'IAPREV'), "nan": NAN}
        # evaluate with loops skipped but recorded
        rec = {}

        def walk_skip(stmts, env_):
            out = []
            for s in stmts:
                if s.get("kind") == "IfStmt":
                    c = ce.ex(s["inner"][0], env_)
                    d = oracle(c)
                    if d is None:
                        raise Undecided(f"condition {show(c)}")
                    br = s["inner"][1] if d else (s["inner"][2] if len(s["inner"]) > 2 else None)
                    if br is not None:
                        walk_skip(body_stmts(br), env_)
                elif s.get("kind") == "ForStmt":
                    rec["wb"] = (s, dict(env_))
                else:
                    ce._walk([s], env_, [])
        try:
            walk_skip(stm2, env)
        except Undecided as ex:
            rep.undecided("R08.d", file, "c_flathomogen", f"step G={G} N={N} X={X}", str(ex), line=floop.get("_line"))
            continue
        A, NA, NNn, ST = ('sym', 'AGG0'), ('sym', 'NA0'), ('sym', 'NN0'), ('sym', 'ST0')
        if G:
            wb_val = NAN if X else A
            A, NA, NNn, ST = num(0), num(0), num(0), ('sym', fi)
        if N:
            NNn = ('add', NNn, num(1))
        else:
            NA = ('add', NA, num(1))
            A = ('add', A, ('sym', 'INP'))
        cn = Canon()
        ok = all(cn.ratio(env[k]) == cn.ratio(w) for k, w in (("agg", A), ("nagg", NA), ("nagg_nan", NNn), ("start", ST)))
        if G:
            if "wb" not in rec:
                ok = False
            else:
                wl, wenv = rec["wb"]
                ok = ok and writeback_ok(wl, wenv, wb_val, fi, cn)
                wb_ref[X] = True
        elif "wb" in rec:
            ok = False
        if not ok:
            badh.append(f"new-group={G} missing-input={N} too-many-missing={X}: agg={show(env['agg'])[:40]}, nagg={show(env['nagg'])}, nagg_nan={show(env['nagg_nan'])}, start={show(env['start'])}")
    rep.check(not badh, "R08.d", file, "c_flathomogen", f"step transducer and group write-back == reference for all {nh} predicate assignments", " | ".join(badh[:3]), line=floop.get("_line"))
    # final write-back agrees
    badt = []
    for X in (True, False):
        env = {"agg": ('sym', 'AGG0'), "nagg": ('sym', 'NA0'), "nagg_nan": ('sym', 'NN0'), "start": ('sym', 'ST0'), "nan": NAN}
        ce = CEval(lambda c, X=X: X if (c[0] == 'cmp' and show(c[2]) == "NN0" and show(c[3]) == "maxnan" and c[1] == ">") else None)
        wl = None
        try:
            for s in ftail:
                if s.get("kind") == "ForStmt":
                    wl = s
                    break
                if s.get("kind") != "ReturnStmt":
                    ce._walk([s], env, [])
        except Undecided as ex:
            badt.append(str(ex))
            continue
        cn = Canon()
        if wl is None or not writeback_ok(wl, env, NAN if X else ('sym', 'AGG0'), fi, cn, final=True):
            badt.append(f"too-many-missing={X}: final write-back differs from the group-change write-back")
    rep.check(not badt, "R08.c", file, "c_flathomogen", "write-back at the end of the data == write-back at a group change", " | ".join(badt), line=floop.get("_line"))

    # =============================== wrappers ==========================================================================
    P = pyxread.load_all(rep.repo)
    shims = {cm: {sh.name: sh for sh in d["shims"]} for cm, d in P.items()}
    sites, _ = xlayer.find_sites(rep.repo, shims)
    for shim in ("aggregate", "flathomogen"):
        st = [s for s in sites if s.shim.name == shim and s.func.name == shim]
        if len(st) != 1:
            raise AnalysisError(f"data/dutils.py: call site of {shim} not found")
        ok, how, _ = xlayer.error_discipline(st[0])
        rep.check(ok, "R08.a", "data/dutils.py", shim, f"error code of {shim} raises", how, line=st[0].call.lineno)
        a = st[0].args
        names = {pn: ast.unparse(v[0]) for pn, v in a.items()}
        rep.check(names.get("aggindex") == "aggindex" and names.get("inputs") == "inputs" and names.get("outputs") == "outputs", "R08.a", "data/dutils.py", shim,
                  "arguments bound to the same-named shim parameters", str(names), line=st[0].call.lineno)
        # the shim's typed memoryviews demand C-contiguous memory: the wrapper must hand over converted copies (astype / np.array / arithmetic /
        # ascontiguousarray), not the caller's array itself, or a strided view (a column of a table, x[::2]) is rejected instead of aggregated
        for pn in ("aggindex", "inputs"):
            v = a.get(pn)
            pa_ = st[0].shim.params.get(pn)
            if v is None or pa_ is None or getattr(pa_, "mode", None) != "c":
                continue
            src_txt = " ".join(ast.unparse(x) for x in ast.walk(st[0].func) if isinstance(x, ast.Assign) and any(isinstance(t, ast.Name) and isinstance(v[0], ast.Name) and t.id == v[0].id for t in x.targets))
            contiguous = v[1].fresh or "ascontiguousarray" in src_txt or "np.require" in src_txt
            cons_c = f"`{pn}` reaches the kernel as a C-contiguous copy whatever the memory layout of the caller's array"
            if contiguous:
                rep.proved("R08.a", "data/dutils.py", shim, cons_c, line=st[0].call.lineno)
            elif v[1].roots:
                rep.violation("R08.a", "data/dutils.py", shim, cons_c, f"`{ast.unparse(v[0])}` can be the caller's own array ({sorted(v[1].roots)}): np.asarray / atleast_1d return it as is when "
                              "the dtype already matches, and the typed memoryview of the shim raises 'ndarray is not C-contiguous' for a strided view", line=st[0].call.lineno, firm=True)
            else:
                rep.undecided("R08.a", "data/dutils.py", shim, cons_c, "origin of the array not tracked", line=st[0].call.lineno)
    mod = Mod(rep.repo, "data/dutils.py")
    # the index is narrowed to 32 bits for the kernel: the only thing a wrapper may do with the narrowed values is hand them over or compare
    # them; a difference / sum of int32 values wraps silently in numpy (INT32_MIN followed by INT32_MAX is a valid non-decreasing index)
    NARROW = ("np.int32", "int32", "np.intc", "'int32'", "'i4'", "np.int16", "np.int8")
    ARITH = ("diff", "ediff1d", "subtract", "add", "cumsum", ".cumsum", "multiply", "gradient", "negative", ".ptp", "ptp")

    def _is_narrow_call(y):
        if not (isinstance(y, tuple) and len(y) >= 3 and y[0] == 'call'):
            return False
        if y[1] in ("int32", "np.int32"):
            return True
        if y[1] not in ("astype", "array", "asarray", "ascontiguousarray", "require"):
            return False
        tys = [z for z in y[2][1:] if isinstance(z, tuple)] + [pq.kw_of(y, "dtype")]
        return any(z is not None and show(z) in NARROW for z in tys)

    def _narrowed(e):
        return pq.mentions(e, _is_narrow_call)

    def _wraps(e):
        if not (isinstance(e, tuple) and e):
            return False
        if e[0] in ('sub', 'add', 'mul'):
            ops = [x for x in e[1:] if isinstance(x, tuple)]
            return any(_narrowed(x) for x in ops) and not any(x and x[0] == 'num' for x in ops)
        if e[0] == 'neg':
            return any(isinstance(x, tuple) and _narrowed(x) for x in e[1:])
        return e[0] == 'call' and e[1] in ARITH and any(isinstance(x, tuple) and _narrowed(x) for x in e[2])
    fns_ = {n.name: n for n in mod.tree.body if isinstance(n, ast.FunctionDef)}
    for shim in ("aggregate", "flathomogen"):
        fd_ = fns_.get(shim)
        if fd_ is None:
            raise AnalysisError(f"data/dutils.py: {shim} not found")
        cons_w = "the int32 copy of the index is only handed to the kernel or compared: no 32-bit difference / sum (numpy wraps it silently) decides a rejection or a result"
        try:
            ev_ = pq.PEval()
            ev_.inline = {k: v for k, v in fns_.items() if k != shim and k not in ("aggregate", "flathomogen")}
            wp_ = ev_.run(fd_)
        except Exception as ex:
            rep.undecided("R08.a", "data/dutils.py", shim, cons_w, f"wrapper not evaluated: {ex}", line=fd_.lineno)
            continue
        hits = []
        for p_ in wp_:
            pool = [c for c, _t in p_.conds] + ([p_.value] if isinstance(p_.value, tuple) else [])
            for e_ in pool:
                for sub in pq.find(e_, _wraps):
                    hits.append((p_.how, show(sub)[:90]))
        rep.check(not hits, "R08.a", "data/dutils.py", shim, cons_w,
                  f"{hits[0][1]} on a path ending in `{hits[0][0]}`: two valid index values more than 2^31-1 apart give a wrapped value" if hits else f"{len(wp_)} paths", line=fd_.lineno, firm=True)
    st = [s_ for s_ in sites if s_.shim.name == "aggregate" and s_.func.name == "aggregate"][0]
    af = st.func
    paths, _before = pq.site_paths(st)
    rets = [p_ for p_ in paths if p_.how == "return"]
    oktr = bool(rets) and all(pq.same(p_.value, pq.kparse("K_outputs[:K_iend[0]]", ["outputs", "iend"])) for p_ in rets)
    rep.check(oktr, "R08.a", "data/dutils.py", "aggregate", "outputs truncated to the number of groups reported by the kernel",
              show(rets[-1].value)[:120] if rets else "", line=af.lineno)
    # monthly2daily
    md = mod.func("monthly2daily")
    mpaths = pq.PEval().run(md)
    flat = [p_ for p_ in mpaths if p_.how == "return" and any(t and show(c).replace(" ", "") in ("(interpolation=='flat')", "('flat'==interpolation)") for c, t in p_.conds)]
    cubic = [p_ for p_ in mpaths if p_.how == "return" and any(t and "'cubic'" in show(c) for c, t in p_.conds)]
    if len(flat) != 1 or len(cubic) != 1:
        raise AnalysisError(f"data/dutils.py: monthly2daily: flat / cubic paths not found ({len(flat)}, {len(cubic)})")
    fp, cp = flat[0], cubic[0]
    sent = [e for e in fp.effects if e.kind == 'store' and e.val == ('nan',) and isinstance(e.key, tuple) and e.key[0] == 'add']
    okn, det = False, "sentinel store not found"
    if sent:
        k = sent[-1].key
        parts = [k[1], k[2]]
        dl = [x for x in parts if pq.call_named(x, "f:delta") or pq.call_named(x, "f:relativedelta")]
        ix = [x for x in parts if pq.call_named(x, "getitem") and pq.call_named(x[2][0], "attr:index") and pq.same(x[2][1], "-1")]
        det = show(k)[-80:]
        if len(dl) == 1 and len(ix) == 1:
            kw = dict(dl[0][3]) if len(dl[0]) > 3 else {}
            okn = not dl[0][2] and set(kw) == {"months"} and pq.same(kw["months"], "1")
    rep.check(okn, "R08.e", "data/dutils.py", "monthly2daily", "flat: sentinel appended exactly one calendar month after the last month", det, line=md.lineno)
    v = fp.value
    okdrop = pq.call_named(v, "getitem") and pq.call_named(v[2][0], "attr:iloc") and pq.same(v[2][1], ('call', 'slice', (('sym', 'None'), pq.parse("-1"), ('sym', 'None'))))
    rep.check(okdrop, "R08.e", "data/dutils.py", "monthly2daily", "flat: the sentinel day is dropped", show(v)[:60], line=md.lineno)
    divs = pq.find(v, lambda e: e[0] == 'div' and pq.call_named(e[2], "attr:days_in_month") and pq.call_named(e[2][2][0], "attr:index") and
                   pq.same(e[2][2][0][2][0], e[1]) and pq.call_named(e[1], ".ffill") and pq.call_named(e[1][2][0], ".resample"))
    rep.check(bool(divs), "R08.e", "data/dutils.py", "monthly2daily", "flat: daily value = forward-filled monthly value / days in its month", "", line=md.lineno)
    okm = "Mi" in cp.env and pq.same(cp.env["Mi"], "np.array([[0., 1., 0.], [3., -2., -1.], [-2., 1., 1.]])")
    mats = pq.find(('tuple', tuple(x for x in cp.env.values() if isinstance(x, tuple))), lambda e: pq.call_named(e, "copy") and
                   pq.same(e, "np.array([[0., 1., 0.], [3., -2., -1.], [-2., 1., 1.]])"))
    rep.check(okm or bool(mats), "R08.e", "data/dutils.py", "monthly2daily", "cubic: coefficient matrix of the system f(0)=0, f(1)=y, f'(0)=d0, f'(1)=d1",
              "f(t) = d0 t + (3y - 2 d0 - d1) t^2 + (-2y + d0 + d1) t^3", line=md.lineno)
    ins = pq.find(('tuple', tuple(x for x in cp.env.values() if isinstance(x, tuple))), lambda e: pq.call_named(e, "insert") and len(e[2]) >= 3 and
                  pq.call_named(e[2][0], "dot") and pq.same(e[2][1], "0") and pq.same(e[2][2], "0"))
    pool_ = ('tuple', tuple(x for x in cp.env.values() if isinstance(x, tuple)))
    any_ins = pq.find(pool_, lambda e: pq.call_named(e, "insert") and len(e[2]) >= 3 and pq.call_named(e[2][0], "dot"))
    stacks = pq.find(pool_, lambda e: (pq.call_named(e, "vstack") or pq.call_named(e, "concatenate") or pq.call_named(e, "row_stack")) and len(e[2]) >= 1 and
                     e[2][0][0] == 'tuple' and len(e[2][0][1]) == 2 and any(pq.call_named(x, "dot") for x in e[2][0][1]))
    cons_ = "cubic: zero constant coefficient prepended (f(0) = 0)"
    if ins:
        rep.proved("R08.e", "data/dutils.py", "monthly2daily", cons_, line=md.lineno)
    elif any_ins:
        rep.violation("R08.e", "data/dutils.py", "monthly2daily", cons_, f"np.insert at position / with value {show(any_ins[0][2][1])}, {show(any_ins[0][2][2])}", line=md.lineno)
    elif stacks:
        first, second = stacks[0][2][0][1]
        zero_first = pq.call_named(first, "zeros") and pq.call_named(second, "dot")
        rep.check(zero_first, "R08.e", "data/dutils.py", "monthly2daily", cons_, f"stacked as {show(first)[:40]} then {show(second)[:40]}", line=md.lineno)
    else:
        rep.undecided("R08.e", "data/dutils.py", "monthly2daily", cons_, "construction of the coefficient array not recognised", line=md.lineno)
    return EXPLANATION


def writeback_ok(wl, env, wb_val, outer_iv, cn, final=False):
    """for(j=start; j<i; j++) outputs[j] = isnan(inputs[j]) ? nan : agg/nagg"""
    lr = cq.loop_range(wl, ())
    if lr is None or lr["lo"] is None or lr["hi"] is None or lr["step"] != 1 or lr["extra"]:
        return False
    jv = lr["var"]
    body = lr["body"]
    ends = [f"{outer_iv}-1"] + (["nval-1"] if final else [])      # after the main loop its counter equals nval
    if not cq.same_expr(lr["lo"], "start") or not any(cq.same_expr(lr["hi"], e_) for e_ in ends):
        return False
    for isn in (True, False):
        ce = CEval(lambda c, isn=isn: isn if (c[0] == 'call' and c[1] == 'isnan') else None, {"inputs": lambda idx: ('sym', 'INPJ')})
        e2 = dict(env)
        try:
            ce._walk(body_stmts(body), e2, [])
        except Undecided:
            return False
        o = [e for e in ce.effects if e.arr == "outputs"]
        if len(o) != 1 or not cq.same_expr(o[0].idx, ('sym', jv)):
            return False
        want = NAN if isn else ('div', wb_val, env.get("nagg", ('sym', 'NA0')))
        if isn:
            if not cn.ratio(o[0].val) == cn.ratio(NAN):
                return False
        else:
            if wb_val == NAN:
                # nan / nagg is nan: accept either form
                if not (cn.ratio(o[0].val) == cn.ratio(('div', NAN, env.get("nagg", ('sym', 'NA0')))) or cn.ratio(o[0].val) == cn.ratio(NAN)):
                    return False
            elif not cn.ratio(o[0].val) == cn.ratio(want):
                return False
    return True
