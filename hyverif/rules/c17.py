"""C17 -- AR simulation and residual computation are exact inverses (sibling agreement of the two kernels)."""
import ast
import itertools

from ..core import AnalysisError
from ..cfront import strip, text
from .. import ckern, xlayer, pyxread, cq, pq, cnorm
from ..ceval import CEval, find_all, loop_parts, body_stmts, loop_var, stores_to
from ..formula import Canon, Ratio, Undecided, show, num
from ..pyfront import Mod, dotted, const_value

EXPLANATION = (
    "c_armodel_sim and c_armodel_residual are evaluated symbolically for one time step with a symbolic lag buffer: "
    "sim stores y - m = e + sum_k phi_k prev_k and residual stores e = (y - m) - sum_k phi_k prev_k over the same "
    "buffer (exact linear identities, checked for orders 1..3 with fully symbolic entries and for the loop skeleton at "
    "any order); both shift the buffer from the highest lag down and feed the CENTRED series into lag 1 (the simulated "
    "value in sim, the input value in residual), both start the buffer at ini - mean; composing the two steps gives "
    "residual(sim(e)) = e and sim(residual(y)) = y identically, and by induction on the shared buffer for the whole "
    "series.  Both kernels share the validation prologue (order in 1..ARMODEL_NPARAMSMAX, NaN parameters, NaN mean / "
    "initial value) and the wrappers share the defaulting of mean / initial value and raise on error codes.  Missing "
    "innovations act as zero; missing inputs are replaced by the AR prediction (zero residual).  Floating-point "
    "equality of the round trip is not decided.")


class _Continue(Exception):
    pass


class _Break(Exception):
    pass


def step(fn, order, nan_in=False, zero=frozenset()):
    """symbolic evaluation of one iteration of the time loop for a given AR order; returns (stored value, new buffer)"""
    loop = time_loop(fn)
    iv = loop_var(loop)
    stm = body_stmts(loop_parts(loop)[3])
    buf_name = lag_buffer(fn)
    env = {"sim_mean": ('sym', 'm'), "nparams": num(order)}
    for k in range(order):
        env[f"{buf_name}[{k}]"] = ('sym', f"p{k}")
    inp = "innov" if fn["name"].endswith("sim") else "inputs"
    from ..ceval import _show as _idx
    # coefficients listed in `zero` are exactly 0 (a tested special value); every other one is a generic non-zero symbol
    arrays = {inp: lambda idx: ('sym', 'IN'), "params": lambda idx: num(0) if _idx(idx) in {str(z) for z in zero} else ('sym', f"phi{_idx(idx)}")}

    def oracle(c):
        if c[0] == 'call' and c[1] == 'isnan':
            s_ = show(c[2][0])
            if "IN" in s_:
                return nan_in
            return False           # buffer entries / parameters are finite
        if c[0] == 'not':
            r = oracle(c[1])
            return None if r is None else not r
        if c[0] in ('and', 'or'):
            from .c03 import _bool
            return _bool(c, oracle)
        if c[0] == 'cmp' and c[1] in ('!=', '==') and show(c[2]) == show(c[3]):
            r = oracle(('call', 'isnan', (c[2],)))         # x != x spells isnan(x)
            return None if r is None else (r if c[1] == '!=' else not r)
        if c[0] == 'cmp':
            cn = Canon()
            try:
                d = cn.ratio(('sub', c[2], c[3]))
            except Undecided:
                return None
            if d.is_const():
                v = d.cval()
                return {"<": v < 0, "<=": v <= 0, ">": v > 0, ">=": v >= 0, "==": v == 0, "!=": v != 0}[c[1]]
            sy = d.symbols()
            if c[1] in ('==', '!=') and len(sy) == 1 and list(sy)[0].startswith("phi") and (d == Ratio.sym(list(sy)[0]) or (-d) == Ratio.sym(list(sy)[0])):
                return c[1] == '!='          # a coefficient not listed in `zero` is generic: different from 0
        return None
    ce = CEval(oracle, arrays)

    def run_block(stmts, env):
        for s in stmts:
            k = s.get("kind")
            if k == "CompoundStmt":
                run_block(s.get("inner", []), env)
            elif k == "ForStmt":
                # unroll the lag loops (constant bounds once nparams is fixed)
                init, cond, inc, body = loop_parts(s)
                v = loop_var(s)
                ce._walk([init], env, []) if init.get("kind") else None
                guard = 0
                while True:
                    c = ce.ex(cond, env)
                    d = oracle(c)
                    if d is None:
                        raise Undecided(f"lag loop condition {show(c)}")
                    if not d:
                        break
                    try:
                        run_block(body_stmts(body), env)
                    except _Continue:
                        pass
                    except _Break:
                        break
                    ce._walk([inc], env, [])
                    # normalise the loop variable to a number
                    env[v] = num(Canon().ratio(env[v]).cval())
                    guard += 1
                    if guard > 20:
                        raise Undecided("lag loop does not terminate")
            elif k == "ContinueStmt":
                raise _Continue()
            elif k == "BreakStmt":
                raise _Break()
            elif k == "IfStmt":
                c = ce.ex(s["inner"][0], env)
                d = oracle(c)
                if d is None:
                    raise Undecided(f"condition {show(c)}")
                br = s["inner"][1] if d else (s["inner"][2] if len(s["inner"]) > 2 else None)
                if br is not None:
                    run_block([br], env)
            else:
                ce._walk([s], env, [])
    # subscripts of prev_centered with numeric index resolve through env keys written by CEval (name[idx])
    try:
        run_block(stm, env)
    except _Continue:
        pass                     # `continue` of the time loop: the rest of this step is skipped
    out = [e for e in ce.effects if e.arr in ("outputs", "residuals")]
    if len(out) != 1:
        raise Undecided(f"{len(out)} stores to the output in one step")
    buf = [env.get(f"{buf_name}[{k}]") for k in range(order)]
    return out[0].val, buf


def time_loop(fn):
    loop = [s for s in body_stmts(fn["body"]) if s.get("kind") == "ForStmt" and (stores_to(s, "outputs") or stores_to(s, "residuals"))]
    if len(loop) != 1:
        raise AnalysisError(f"{fn['file']}: {fn['name']} time loop not found")
    return loop[0]


def lag_buffer(fn):
    """the local array that carries the previous centred values"""
    decl = [n for n in find_all(fn["body"], lambda n: n.get("kind") == "VarDecl") if "[" in n.get("type", {}).get("qualType", "") and
            "double" in n["type"]["qualType"]]
    if len(decl) != 1:
        raise AnalysisError(f"{fn['file']}: {fn['name']}: lag buffer (one local double array) not found")
    return decl[0]["name"]


def prologue_summary(fn):
    """validation part before the time loop: set of (error condition atoms, scan range) and the buffer initialisation"""
    top = body_stmts(fn["body"])
    loop = time_loop(fn)
    pre = cq.preceding(top, loop)
    ce = cq.evaluate(pre)
    buf = lag_buffer(fn)
    cn = Canon()
    errs = set()
    allret = [(r[0], r[1], ()) for r in ce.returns] + [(r[0], r[1], r[3]) for r in ce.loop_returns]
    ranges = {}
    for l in [x for x in pre if x.get("kind") == "ForStmt"]:
        lr = cq.loop_range(l, cq.preceding(top, l))
        if lr and lr["lo"] is not None and lr["hi"] is not None:
            lo, hi = (lr["lo"], lr["hi"]) if lr["step"] == 1 else (lr["hi"], lr["lo"])
            ranges[lr["var"]] = (repr(cn.ratio(lo)), repr(cn.ratio(hi)))
    for val, conds, loops in allret:
        if not isinstance(val, tuple) or cq.same_expr(val, "0"):
            continue
        last = conds[-1] if conds else None
        if last is None:
            continue
        c, t = last
        a = cq.cond_atoms(c, None, None, cn)
        if not t:
            a = cq._negate(a)
        txt = cq.atom_text(a)
        for v in loops:
            txt = txt.replace(v, "K")
        errs.add((txt, tuple(ranges.get(v) for v in loops)))
    init = []
    for e in cq.stores(ce, buf):
        v = e.loops[-1] if e.loops else None
        init.append((repr(cn.ratio(e.idx)).replace(v or "\0", "K"), repr(cn.ratio(e.val)), ranges.get(v)))
    return errs, sorted(init)


def run(rep):
    rep.rule("R17.a", "one-step identities: sim stores m + e + sum phi_k p_k, residual stores (y - m) - sum phi_k p_k over the same buffer; buffers shifted from the highest lag down, centred series fed into lag 1")
    rep.rule("R17.b", "composition: residual step after sim step returns e and leaves the same buffer (and conversely)")
    rep.rule("R17.c", "same validation prologue in both kernels (order bounds, NaN parameters, NaN mean / initial value), same initial buffer ini - mean; wrappers agree and raise")
    rep.rule("R17.d", "missing innovations act as zero; missing inputs are replaced by the AR prediction (zero residual)")
    K = ckern.analyze(rep.repo)
    if K["fns"].get("c_armodel_sim") is None or K["fns"].get("c_armodel_residual") is None:
        raise AnalysisError("stat/c_armodels.c: kernels not found")
    fs, fr = ckern.normalised(K, "c_armodel_sim", rep.repo), ckern.normalised(K, "c_armodel_residual", rep.repo)
    file = fs["file"]
    rep.unit(f"{file}: c_armodel_sim, c_armodel_residual; stat/armodels.py: armodel_sim, armodel_residual")
    cn = Canon()
    nid = 0
    for order in range(1, 11):          # every order the kernels accept (1 .. ARMODEL_NPARAMSMAX): exhaustive
        try:
            vs, bs = step(fs, order)
            vr, br = step(fr, order)
        except Undecided as ex:
            rep.undecided("R17.a", file, "c_armodel_*", f"order {order}: step evaluation", str(ex), line=fs["line"])
            continue
        nid += 1
        ar = Ratio.const(0)
        for k in range(order):
            ar = ar + Ratio.sym(f"phi{k}") * Ratio.sym(f"p{k}")
        E = Ratio.sym("IN")
        want_s = Ratio.sym("m") + E + ar
        want_r = (E - Ratio.sym("m")) - ar
        rep.check(cn.ratio(vs) == want_s, "R17.a", file, "c_armodel_sim", f"order {order}: y[t] = m + e[t] + sum_k phi[k] (y[t-k-1] - m)", f"stores {cn.ratio(vs)}", line=fs["line"])
        rep.check(cn.ratio(vr) == want_r, "R17.a", file, "c_armodel_residual", f"order {order}: e[t] = (y[t] - m) - sum_k phi[k] (y[t-k-1] - m)", f"stores {cn.ratio(vr)}", line=fr["line"])
        # buffers: lag 1 <- centred new value, lag k+1 <- lag k
        want_bs = [want_s - Ratio.sym("m")] + [Ratio.sym(f"p{k}") for k in range(order - 1)]
        want_br = [E - Ratio.sym("m")] + [Ratio.sym(f"p{k}") for k in range(order - 1)]
        okbs = all(b is not None and cn.ratio(b) == w for b, w in zip(bs, want_bs))
        okbr = all(b is not None and cn.ratio(b) == w for b, w in zip(br, want_br))
        rep.check(okbs, "R17.a", file, "c_armodel_sim", f"order {order}: lag buffer shifted from the highest lag down, lag 1 <- simulated value - mean",
                  str([str(cn.ratio(b)) if b is not None else None for b in bs]), line=fs["line"])
        rep.check(okbr, "R17.a", file, "c_armodel_residual", f"order {order}: lag buffer shifted from the highest lag down, lag 1 <- input value - mean",
                  str([str(cn.ratio(b)) if b is not None else None for b in br]), line=fr["line"])
        # composition: feed y = sim(e) into residual: (y - m) - ar = e ; buffers coincide
        y = want_s
        comp = (y - Ratio.sym("m")) - ar
        rep.check(comp == E and okbs and okbr and (want_s - Ratio.sym("m")) == (y - Ratio.sym("m")), "R17.b", file, "c_armodel_*",
                  f"order {order}: residual(sim(e)) = e and both kernels leave the same lag buffer", f"residual of the simulated value: {comp}", line=fs["line"])
    rep.floor("AR orders evaluated", nid, 10)
    # exactly-zero coefficients (a value kernels may test for): same identities with phi_k = 0, orders 1..3, every subset
    import itertools
    nz = 0
    for order in (1, 2, 3):
        for r_ in range(1, order + 1):
            for zs in itertools.combinations(range(order), r_):
                try:
                    vs, bs = step(fs, order, zero=frozenset(zs))
                    vr, br = step(fr, order, zero=frozenset(zs))
                except Undecided as ex:
                    rep.undecided("R17.a", file, "c_armodel_*", f"order {order}, phi{list(zs)} = 0: step evaluation", str(ex), line=fs["line"])
                    continue
                nz += 1
                ar = Ratio.const(0)
                for k in range(order):
                    if k not in zs:
                        ar = ar + Ratio.sym(f"phi{k}") * Ratio.sym(f"p{k}")
                E = Ratio.sym("IN")
                want_s, want_r = Ratio.sym("m") + E + ar, (E - Ratio.sym("m")) - ar
                want_bs = [want_s - Ratio.sym("m")] + [Ratio.sym(f"p{k}") for k in range(order - 1)]
                want_br = [E - Ratio.sym("m")] + [Ratio.sym(f"p{k}") for k in range(order - 1)]
                oks = cn.ratio(vs) == want_s and all(b is not None and cn.ratio(b) == w for b, w in zip(bs, want_bs))
                okr = cn.ratio(vr) == want_r and all(b is not None and cn.ratio(b) == w for b, w in zip(br, want_br))
                rep.check(oks, "R17.a", file, "c_armodel_sim", f"order {order} with phi{list(zs)} exactly 0: same recursion and buffer shift",
                          f"stores {cn.ratio(vs)}; buffer {[str(cn.ratio(b)) if b is not None else None for b in bs]}", line=fs["line"])
                rep.check(okr, "R17.a", file, "c_armodel_residual", f"order {order} with phi{list(zs)} exactly 0: same recursion and buffer shift",
                          f"stores {cn.ratio(vr)}; buffer {[str(cn.ratio(b)) if b is not None else None for b in br]}", line=fr["line"])
    rep.floor("zero-coefficient scenarios evaluated", nz, 11)
    # R17.d NaN handling
    try:
        vs_nan, _ = step(fs, 2, nan_in=True)
        rep.check(cn.ratio(vs_nan) == Ratio.sym("m") + Ratio.sym("phi0") * Ratio.sym("p0") + Ratio.sym("phi1") * Ratio.sym("p1"), "R17.d", file, "c_armodel_sim",
                  "a missing innovation acts as a zero innovation", f"stores {cn.ratio(vs_nan)}", line=fs["line"])
        vr_nan, br_nan = step(fr, 2, nan_in=True)
        rep.check(cn.ratio(vr_nan).is_zero(), "R17.d", file, "c_armodel_residual", "a missing input gives a zero residual", f"stores {cn.ratio(vr_nan)}", line=fr["line"])
        rep.check(br_nan[0] is not None and cn.ratio(br_nan[0]) == Ratio.sym("phi0") * Ratio.sym("p0") + Ratio.sym("phi1") * Ratio.sym("p1"), "R17.d", file, "c_armodel_residual",
                  "a missing input is replaced by the AR prediction in the lag buffer", "", line=fr["line"])
    except Undecided as ex:
        rep.undecided("R17.d", file, "c_armodel_*", "NaN step", str(ex), line=fs["line"])
    # R17.c prologue agreement
    es, inis = prologue_summary(fs)
    er, inir = prologue_summary(fr)
    rep.check(es == er and inis == inir, "R17.c", file, "c_armodel_residual", "validation prologue and buffer initialisation identical to c_armodel_sim",
              f"sim: {sorted(es)} {inis} ; residual: {sorted(er)} {inir}"[:400], line=fr["line"])
    cnp = Canon()
    want_err = {"order": cq.cond_atoms("nparams > 10 || nparams <= 0", True, None, cnp)}
    txts = {t for t, _r in es}
    rep.check(cq.atom_text(want_err["order"]) in txts, "R17.c", file, "c_armodel_sim", "order outside 1..10 is rejected", str(sorted(txts))[:200], line=fs["line"])
    rep.check(any(t.startswith("('isnan'") and "params" in t and r == (("0", "-1 + nparams"),) for t, r in es), "R17.c", file, "c_armodel_sim",
              "a NaN coefficient among params[0..nparams-1] is rejected", str(sorted(es))[:300], line=fs["line"])
    for nm in ("sim_mean", "sim_ini"):
        rep.check(any(t == repr(('isnan', nm)) and r == () for t, r in es), "R17.c", file, "c_armodel_sim", f"a NaN {nm} is rejected", str(sorted(txts))[:200], line=fs["line"])
    rep.check(len(inis) == 1 and inis[0][0] == "K" and inis[0][1] == repr(cnp.ratio(cq.parse("sim_ini - sim_mean"))) and inis[0][2] == ("0", "-1 + nparams"), "R17.c", file, "c_armodel_sim",
              "lag buffer starts at sim_ini - sim_mean for lags 0..nparams-1", str(inis), line=fs["line"])
    decl = [n for n in find_all(fs["body"], lambda n: n.get("kind") == "VarDecl" and n.get("name") == lag_buffer(fs))]
    import re as _re
    m_ = _re.search(r"\[(\d+)\]", decl[0]["type"]["qualType"]) if decl else None
    rep.check(bool(m_) and int(m_.group(1)) >= 10, "R17.c", file, "c_armodel_sim", "lag buffer holds at least 10 entries, the maximum accepted order", decl[0]["type"]["qualType"] if decl else "", line=fs["line"])
    # wrappers
    P = pyxread.load_all(rep.repo)
    shims = {cm: {sh.name: sh for sh in d["shims"]} for cm, d in P.items()}
    sites, _ = xlayer.find_sites(rep.repo, shims)
    mod = Mod(rep.repo, "stat/armodels.py")
    bodies = {}
    for nm, data_arg in (("armodel_sim", "innov"), ("armodel_residual", "inputs")):
        st = [s for s in sites if s.shim.name == nm]
        if len(st) != 1:
            raise AnalysisError(f"stat/armodels.py: call site of {nm} not found")
        ok, how, _ = xlayer.error_discipline(st[0])
        rep.check(ok and how.split(" ")[0] == "!=0", "R17.c", "stat/armodels.py", nm, "kernel error code (any non-zero value) raises", how, line=st[0].call.lineno)
        f = st[0].func
        helpers_ = {n.name: n for n in mod.tree.body if isinstance(n, ast.FunctionDef) and n.name not in ("armodel_sim", "armodel_residual")}

        class _Inl(pq.PEval):
            def __init__(self, *a, **k):
                super().__init__(*a, **k)
                self.inline = dict(helpers_)
        try:
            pargs = pq.call_arguments(f, st[0].call, list(st[0].shim.params), base=_Inl if helpers_ else pq.PEval)
        except Exception:
            pargs = pq.call_arguments(f, st[0].call, list(st[0].shim.params))
        plist = list(st[0].shim.params)
        okorder = plist[:4] == ["sim_mean", "sim_ini", "params", data_arg] or plist[:4] == ["sim_mean", "sim_ini", "params", plist[3]]
        okm = "sim_mean" in pargs and all(pq.same(v, "sim_mean") or any(t and pq.same(c, "sim_mean is None") for c, t in cnds)
                                          for cnds, v in pq.split_where(pargs["sim_mean"]))
        okp = "params" in pargs and pq.mentions(pargs["params"], lambda e: e == ('sym', 'params')) and \
            plist[3] in pargs and pq.mentions(pargs[plist[3]], lambda e: e == ('sym', data_arg))
        rep.check(okorder and okm and okp, "R17.c", "stat/armodels.py", nm, "mean, initial value, coefficients and series passed in the kernel's order",
                  str({k_: show(v)[:40] for k_, v in pargs.items()})[:300], line=st[0].call.lineno)
        okini = "sim_ini" in pargs and "sim_mean" in pargs
        if okini:
            for cnds, tup in pq.split_where(('tuple', (pargs["sim_mean"], pargs["sim_ini"]))):
                mean_v, ini_v = tup[1]
                isnone = [t for c, t in cnds if pq.same(c, "sim_ini is None")]
                if isnone and isnone[0]:
                    okini = okini and pq.same(ini_v, mean_v)
                elif isnone:
                    okini = okini and pq.same(ini_v, "sim_ini")
                else:
                    okini = False
        # positive refutation: the default is selected by the VALUE of the initial condition (truthiness, `or`, a comparison with a number)
        byval = []
        if "sim_ini" in pargs:
            isini = lambda e: e == ('sym', 'sim_ini')
            for cnds, v in pq.split_where(pargs["sim_ini"]):
                for sub in pq.find(v, lambda e: isinstance(e, tuple) and e and e[0] in ('or', 'and') and any(isini(x) or (isinstance(x, tuple) and x and x[0] == 'call' and x[1] in ("float64", "float", "np.float64", "py.float") and any(isini(y) for y in x[2])) for x in e[1:])):
                    byval.append(show(sub)[:60])
                for c, _t in cnds:
                    while isinstance(c, tuple) and c and c[0] == 'not':
                        c = c[1]
                    if isini(c) or (isinstance(c, tuple) and c and c[0] == 'cmp' and c[1] in ('==', '!=', '>', '<', '>=', '<=') and any(isini(x) for x in c[2:]) and any(isinstance(x, tuple) and x and x[0] == 'num' for x in c[2:])):
                        byval.append("path condition " + show(c)[:50])
        rep.check(not byval, "R17.c", "stat/armodels.py", nm, "the default initial value is selected by `sim_ini is None`, never by the value of sim_ini",
                  f"{sorted(set(byval))[:2]}: an explicit sim_ini = 0 is replaced by the mean", line=f.lineno, firm=True)
        rep.check(okini, "R17.c", "stat/armodels.py", nm, "initial value defaults to the mean only when it is None (0 is a legitimate initial value)",
                  show(pargs.get("sim_ini", num(0)))[:120], line=f.lineno)
        bodies[nm] = f
    return EXPLANATION


def _norm_stmt(s):
    t = text(s["inner"][0]) if s.get("kind") == "IfStmt" else ""
    if s.get("kind") == "IfStmt":
        return "if(" + text(s["inner"][0]).replace(" ", "") + ")" + ("return" if find_all(s, lambda n: n.get("kind") == "ReturnStmt") else "")
    init, cond, inc, body = loop_parts(s)
    inner = []
    for b in body_stmts(body):
        if b.get("kind") == "IfStmt":
            inner.append(_norm_stmt(b))
        elif b.get("kind") == "BinaryOperator":
            inner.append(text(b["inner"][0]).replace(" ", "") + "=" + text(b["inner"][1]).replace(" ", "").replace("(", "").replace(")", ""))
    return f"for({text(init).replace(' ', '')};{text(cond).replace(' ', '')};{text(inc).replace(' ', '')}){{{';'.join(inner)}}}"
