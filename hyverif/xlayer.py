"""Cross-layer call-site analysis (engine E6): Python call sites of the Cython shims.

For every call `c_hydrodiy_<m>.<shim>(...)` in the analysed modules, evaluate the enclosing
function symbolically (pyshape) up to the call and return the abstract values of the
arguments, bound to the shim's parameters."""
import ast

from .core import AnalysisError
from .pyfront import Mod, dotted, enclosing, qualname, walk_no_nested, raises
from . import pyshape
from .pyshape import Val, Evaluator, params_env
from .poly import Poly

CALLER_MODULES = ["data/dutils.py", "data/qualitycontrol.py", "data/signatures.py", "gis/grid.py", "gis/gutils.py",
                  "stat/armodels.py", "stat/metrics.py", "stat/sutils.py"]


class Site:
    def __init__(self):
        self.mod = self.func = self.call = self.stmt = None
        self.cmodule = self.shim = None
        self.env = None
        self.args = {}         # shim parameter name -> (ast expr, Val)
        self.result_name = None
        self.ev = None

    def where(self):
        return f"{self.mod.rel}:{self.call.lineno}"


class Repo:
    """lazy module table + repository call resolver"""

    def __init__(self, repo):
        self.repo = repo
        self.mods = {}
        self._stack = []

    def mod(self, rel):
        if rel not in self.mods:
            self.mods[rel] = Mod(self.repo, rel)
        return self.mods[rel]

    def find_method(self, name):
        """unique function/method with this bare name across the caller modules (None if ambiguous)"""
        hits = []
        for rel in CALLER_MODULES:
            m = self.mod(rel)
            for q, f in m.funcs.items():
                if q.split(".")[-1] == name and not q.endswith(".setter"):
                    hits.append((m, q, f))
        if len(hits) == 1:
            return hits[0]
        return None

    def resolver_for(self, mod):
        def resolve(call, env, evaluator, base):
            f = call.func
            name = None
            if isinstance(f, ast.Name):
                name = f.id
                if name not in mod.funcs:
                    return None
                target = (mod, name, mod.funcs[name])
            elif isinstance(f, ast.Attribute):
                name = f.attr
                if name in ("cell2coord", "cell2rowcol", "coord2cell", "neighbours", "_getsize"):
                    target = self.find_method(name)
                elif isinstance(f.value, ast.Name) and f.value.id == "self":
                    cls = enclosing(call, ast.ClassDef)
                    q = f"{cls.name}.{name}" if cls is not None else None
                    target = (mod, q, mod.funcs[q]) if q in mod.funcs else None
                else:
                    target = None
                if target is None:
                    return None
            else:
                return None
            if evaluator.depth >= 3 or target[2] in self._stack:
                return None
            tmod, q, fdef = target
            # bind arguments
            a = fdef.args
            pnames = [x.arg for x in a.posonlyargs + a.args]
            if pnames and pnames[0] in ("self", "cls") and "." in q:
                selfval = base if base is not None else Val(desc="self")
                pnames_b = pnames[1:]
            else:
                selfval = None
                pnames_b = pnames
            argvals = {}
            for pn, ax in zip(pnames_b, call.args):
                argvals[pn] = evaluator.ev(ax, env)
            for k in call.keywords:
                if k.arg:
                    argvals[k.arg] = evaluator.ev(k.value, env)
            if selfval is not None:
                argvals[pnames[0]] = selfval
            cenv, names, defaults = params_env(fdef, argvals)
            # unbound parameters with constant defaults
            for n, d in defaults.items():
                if n not in argvals:
                    sub = Evaluator(tmod)
                    cenv.vars[n] = sub.ev(d, cenv)
            cenv.lb.update(env.lb)
            cenv.eq.update(env.eq)
            sub = Evaluator(tmod, self.resolver_for(tmod), evaluator.depth + 1)
            self._stack.append(fdef)
            try:
                sub.run(fdef.body, cenv)
            finally:
                self._stack.pop()
            if not sub.returns:
                return Val(desc=f"{q}()")
            val, renv = sub.returns[0]
            for v2, e2 in sub.returns[1:]:
                val = pyshape.join_val(val, v2)
                renv = pyshape.join_env(renv, e2)
            # facts established by the callee's guards hold after it returned
            env.lb.update({k: max(v, env.lb.get(k, v)) for k, v in renv.lb.items()})
            for k, v in renv.eq.items():
                env.eq.setdefault(k, v)
            return val
        return resolve


def find_sites(repo, shims_by_module):
    """shims_by_module: 'c_hydrodiy_gis' -> {shim name -> Shim}"""
    R = Repo(repo)
    sites = []
    for rel in CALLER_MODULES:
        mod = R.mod(rel)
        for q, fdef in mod.funcs.items():
            aliases = {}
            for n in walk_no_nested(fdef):
                if isinstance(n, ast.Assign) and len(n.targets) == 1 and isinstance(n.targets[0], ast.Name):
                    d = dotted(n.value)
                    if d and d.split(".")[0] in shims_by_module and d.count(".") == 1:
                        aliases[n.targets[0].id] = d
            for n in walk_no_nested(fdef):
                if not isinstance(n, ast.Call):
                    continue
                d = dotted(n.func)
                if d in aliases:
                    d = aliases[d]
                if not d or d.count(".") != 1:
                    continue
                cm, sn = d.split(".")
                if cm not in shims_by_module:
                    continue
                if sn not in shims_by_module[cm]:
                    raise AnalysisError(f"{rel}:{n.lineno}: call of unknown shim {d}")
                s = Site()
                s.mod, s.func, s.call, s.cmodule, s.shim = mod, fdef, n, cm, shims_by_module[cm][sn]
                # innermost statement containing the call
                st = n
                while not isinstance(st, ast.stmt):
                    st = st._parent
                s.stmt = st
                if isinstance(st, ast.Assign) and len(st.targets) == 1 and isinstance(st.targets[0], ast.Name) \
                        and st.value is n:
                    s.result_name = st.targets[0].id
                ev = Evaluator(mod, R.resolver_for(mod))
                ev.stop_at = st
                env, names, defaults = params_env(fdef)
                for pn, dflt in defaults.items():
                    pass
                ev.run(fdef.body, env)
                if ev.snapshot is None:
                    raise AnalysisError(f"{rel}:{n.lineno}: call site not reached by the evaluator")
                s.env = ev.snapshot
                s.ev = ev
                pnames = list(s.shim.params)
                for pn, ax in zip(pnames, n.args):
                    s.args[pn] = (ax, ev.ev(ax, s.env))
                for k in n.keywords:
                    if k.arg in s.shim.params:
                        s.args[k.arg] = (k.value, ev.ev(k.value, s.env))
                sites.append(s)
    return sites, R


def _error_test_kind(t, name):
    """`name` tested for a non-zero / positive error code, in any equivalent spelling -> '!=0' | '>0' | None"""
    from . import pq, cq
    try:
        e = pq.PB().build(t, {})
        for want, kind in ((f"{name} != 0", "!=0"), (f"{name} > 0", ">0")):
            if cq.same_cond(e, cq.parse(want), True):
                return kind
        if e == ('sym', name):
            return "!=0"
    except Exception:
        return None
    return None


def error_discipline(site):
    """(ok, how): the shim's return value is bound and tested, and the true branch raises, on the path after the call.
    Accepted tests: `r != 0`, `r > 0` (caller must check that the kernel never returns a negative code), `r`."""
    if site.result_name is None:
        return False, "return value not bound to a name", None
    name = site.result_name
    # statements following the call statement in the same block
    parent = site.stmt._parent
    for field in ("body", "orelse", "finalbody"):
        body = getattr(parent, field, None)
        if isinstance(body, list) and site.stmt in body:
            rest = body[body.index(site.stmt) + 1:]
            break
    else:
        return False, "call statement not in a block", None
    for s in rest:
        if isinstance(s, ast.If):
            t = s.test
            kind = _error_test_kind(t, name)
            if kind and raises(s.body):
                return True, kind, s
            if kind is None and s.orelse and raises(s.orelse):
                k2 = _error_test_kind(ast.UnaryOp(op=ast.Not(), operand=t), name)
                if k2:
                    return True, k2, s
            if kind is None and not s.orelse and s.body and isinstance(s.body[-1], ast.Return):
                # success test with an early return; the error case falls through to an unconditional raise
                k2 = _error_test_kind(ast.UnaryOp(op=ast.Not(), operand=t), name)
                after = rest[rest.index(s) + 1:]
                if k2 and after and isinstance(after[0], ast.Raise) or (k2 and after and all(isinstance(x, (ast.Assign, ast.Expr)) for x in after[:-1]) and isinstance(after[-1], ast.Raise)):
                    return True, k2 + " (early return on success, raise after)", s
            if kind:
                return False, f"test `{ast.unparse(t)}` does not raise", s
        # any rebinding or use of other names before the test is fine; a rebinding of the result is not
        for n in ast.walk(s):
            if isinstance(n, ast.Name) and n.id == name and isinstance(n.ctx, ast.Store):
                return False, "result overwritten before being tested", s
        if isinstance(s, (ast.Return, ast.Raise)):
            break
    return False, "return value never tested", None


def check_init(rep, v, want, rule, file, func, cons, line, need_fresh=True, extra_ok=True, detail_bad="", fdef=None):
    """verdict on the initial content of a buffer handed to a kernel: proved when the evaluator knows it is `want` (and fresh), violation when
    it knows something else (uninitialised, another constant, the caller's array), undecided when the content is not tracked"""
    if v is not None and v[1].init is None and v[1].roots and not v[1].fresh and fdef is not None and isinstance(v[0], ast.Name):
        # the buffer can be the caller's own array: its content is whatever the caller left in it, unless this function writes it in a way the
        # evaluator does not follow (slice store, in-place method other than fill, np.copyto ...)
        nm = v[0].id
        other_writes = [n for n in ast.walk(fdef) if (isinstance(n, ast.Subscript) and isinstance(n.ctx, ast.Store) and isinstance(n.value, ast.Name) and n.value.id == nm) or
                        (isinstance(n, ast.Call) and isinstance(n.func, ast.Attribute) and isinstance(n.func.value, ast.Name) and n.func.value.id == nm and n.func.attr not in ("fill", "astype", "copy")) or
                        (isinstance(n, ast.Call) and any(isinstance(a_, ast.Name) and a_.id == nm for a_ in n.args) and dotted(n.func) in ("np.copyto", "np.put", "np.place"))]
        if not other_writes:
            rep.violation(rule, file, func, cons, detail_bad or f"`{nm}` can be the caller's array and reaches the kernel with the content the caller left in it", line=line)
            return False
    if v is None or v[1].init is None:
        rep.undecided(rule, file, func, cons, "initial content of the buffer is not tracked by the shape evaluator (" +
                      (ast.unparse(v[0])[:60] if v is not None else "argument not bound") + ")", line=line)
        return None
    ok = v[1].init == want and (v[1].fresh or not need_fresh) and extra_ok
    rep.check(ok, rule, file, func, cons, detail_bad or f"init {v[1].init}, fresh {v[1].fresh}", line=line)
    return ok
