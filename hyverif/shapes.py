"""Structural fingerprints of functions, used only to DOWNGRADE shape-dependent violations to 'undecided'.

Most rules state their clause against the way a function is built today (its loops, guards, stores).  When a function has
been restructured (helper extracted, loops merged, control flow inverted), a failed comparison no longer tells a defect from
an unrecognised equivalent form.  The fingerprint of a function is the sequence of its control-structure tokens (identifier-
free); its distance to the fingerprint recorded in /verif/baseline_shapes.json (tools/mkshapes.py, regenerated when the rules
are re-anchored) is the number of inserted / deleted / replaced tokens.  Measured on the corpora of /verif: every one of the
144 confirmed property-breaking changes stays below 9 in total, while about two thirds of the deliberately bold behaviour-
preserving refactors reach 9 or more within one file.  A violation reported in a file at total distance >= 9
is therefore reported as UNDECIDED (exit 2: the rules need re-anchoring), except for rules whose verdict does not depend on
the shape of the code (range analysis, computer-algebra identities with a witness, precision and row/column typing)."""
import ast
import difflib
import glob
import json
import os
import re

from .core import VERIF

THRESHOLD = 9
SHAPE_FREE = ()
THRESHOLD_RANGE = 10                         # R05.*: "not provable" alarms of the range / contract analysis lose precision on rewritten loops sooner than
                                             # the shape rules do (every confirmed memory-safety change and every reverted fix is at distance <= 9, most rewrites
                                             # that defeat the analysis at >= 10); the kernel file a call-site contract comes from counts as well
SHAPE_FREE_EXACT = {"R01.g", "R01.h", "R02.d", "R02.e"}
SHAPE_FREE_SUFFIX = (".p", ".rc")


def c_funcs(src):
    src = re.sub(r"/\*.*?\*/", " ", src, flags=re.S)
    src = re.sub(r"//[^\n]*", " ", src)
    out = {}
    for m in re.finditer(r"\b([A-Za-z_]\w*)\s*\([^;{}()]*(?:\([^()]*\)[^;{}()]*)*\)\s*\{", src):
        name = m.group(1)
        if name in ("if", "for", "while", "switch"):
            continue
        i = m.end()
        depth, j = 1, i
        while j < len(src) and depth:
            if src[j] == '{':
                depth += 1
            elif src[j] == '}':
                depth -= 1
            j += 1
        body = src[i:j - 1]
        out[name] = re.findall(r"\b(?:if|else|for|while|do|switch|case|default|return|break|continue|goto)\b|\+\+|--|[-+*/|&^%]?=(?!=)|\?|\{|\}", body)
    return out


def py_funcs(src):
    out = {}
    try:
        tree = ast.parse(src)
    except SyntaxError:
        return out

    def toks(f):
        t = []

        def rec(stmts):
            for s in stmts:
                if isinstance(s, ast.Expr) and isinstance(s.value, ast.Constant) and isinstance(s.value.value, str):
                    continue
                t.append(type(s).__name__)
                for fld in ("body", "orelse", "finalbody"):
                    sub = getattr(s, fld, None)
                    if isinstance(sub, list) and sub and isinstance(sub[0], ast.stmt):
                        t.append("{")
                        rec(sub)
                        t.append("}")
                for h in getattr(s, "handlers", []) or []:
                    t.append("except{")
                    rec(h.body)
                    t.append("}")
        rec(f.body)
        return t
    for n in tree.body:
        if isinstance(n, ast.FunctionDef):
            out[n.name] = toks(n)
        elif isinstance(n, ast.ClassDef):
            for m in n.body:
                if isinstance(m, ast.FunctionDef):
                    k = n.name + "." + m.name
                    out[k] = out.get(k, []) + toks(m)
    return out


def shapes(repo):
    out = {}
    root = os.path.join(repo, "src", "hydrodiy")
    for p in sorted(glob.glob(os.path.join(root, "**", "*.c"), recursive=True) + glob.glob(os.path.join(root, "**", "*.py"), recursive=True)):
        if "/tests/" in p or os.path.basename(p).startswith("c_hydrodiy_"):
            continue
        rel = os.path.relpath(p, root)
        try:
            src = open(p, errors="replace").read()
        except OSError:
            continue
        for k, v in (c_funcs(src) if p.endswith(".c") else py_funcs(src)).items():
            out[rel + ":" + k] = v
    return out


def dist(a, b):
    d = 0
    for op, i1, i2, j1, j2 in difflib.SequenceMatcher(None, a, b, autojunk=False).get_opcodes():
        if op != "equal":
            d += max(i2 - i1, j2 - j1)
    return d


_CACHE = {}


def restructured(repo):
    """{file: total distance} for the source files whose functions are, together, at distance >= THRESHOLD from the recorded
    fingerprints (a helper extracted from f shows up as a change of f and a new function: both count)"""
    if repo in _CACHE:
        return _CACHE[repo]
    bp = os.path.join(VERIF, "baseline_shapes.json")
    if not os.path.exists(bp):
        _CACHE[repo] = {}
        return {}
    base = json.load(open(bp))
    cur = shapes(repo)
    tot = {}
    for k in set(cur) | set(base):
        f = k.split(":")[0]
        if f not in {x.split(":")[0] for x in cur}:
            continue                      # file absent from the tree under analysis: an anchor problem, reported elsewhere
        d = dist(base.get(k, []), cur.get(k, []))
        if d:
            tot[f] = tot.get(f, 0) + d
    out = {f: d for f, d in tot.items() if d >= THRESHOLD}
    _CACHE[repo] = out
    _ALL[repo] = tot
    return out


_ALL = {}


def all_distances(repo):
    restructured(repo)
    return _ALL.get(repo, {})


def shape_free(rule):
    return rule.startswith(SHAPE_FREE) or rule in SHAPE_FREE_EXACT or rule.endswith(SHAPE_FREE_SUFFIX)
