"""Kernel effect summaries (engine E3): per C function and pointer parameter
  W  stored through            S  reordered in place (qsort)        R  only read
  A  accumulated: some store is a read-modify-write (+=, ++ ...) so the incoming content matters
  P  partially written: some store is conditional / not at every index, the caller sees its own content elsewhere
Computed bottom-up over the call graph from the clang AST."""
from .cfront import strip
from . import ckern


def _base_param(e, params):
    """name of the pointer parameter an lvalue / pointer expression is based on (p[i], *p, &p[k], p, p+k)"""
    e = strip(e)
    k = e.get("kind")
    while k in ("ParenExpr", "ImplicitCastExpr", "CStyleCastExpr"):
        e = strip(e["inner"][0])
        k = e.get("kind")
    if k == "DeclRefExpr":
        n = e["referencedDecl"]["name"]
        return n if n in params else None
    if k == "ArraySubscriptExpr":
        return _base_param(e["inner"][0], params)
    if k == "UnaryOperator" and e.get("opcode") in ("*", "&"):
        return _base_param(e["inner"][0], params)
    if k == "BinaryOperator" and e.get("opcode") in ("+", "-"):
        return _base_param(e["inner"][0], params) or _base_param(e["inner"][1], params)
    return None


def analyze(K):
    fns = K["fns"]
    levels = ckern.topo_levels(K["graph"])
    eff = {}
    for lvl in levels:
        for q in lvl:
            fn = fns[q]
            params = {p["name"] for p in fn["params"] if p["type"]["qualType"].rstrip().endswith("*")}
            res = {p: set() for p in params}
            # local pointer aliases of parameters:  double *a = p;  (rare) -- treat as the parameter itself
            alias = {}

            def walk(n, cond_depth, loop_depth):
                k = n.get("kind")
                if k in ("IfStmt", "ConditionalOperator"):
                    inner = n.get("inner", [])
                    if inner:
                        walk(inner[0], cond_depth, loop_depth)
                    for c in inner[1:]:
                        if c.get("kind"):
                            walk(c, cond_depth + 1, loop_depth)
                    return
                if k in ("ForStmt", "WhileStmt", "DoStmt"):
                    for c in n.get("inner", []):
                        if c.get("kind"):
                            walk(c, cond_depth, loop_depth + 1)
                    return
                if k == "BinaryOperator" and n.get("opcode") == "=":
                    p = _lhs_param(n["inner"][0], params)
                    if p:
                        res[p].add("W")
                        if cond_depth > 0:
                            res[p].add("P")
                if k == "CompoundAssignOperator":
                    p = _lhs_param(n["inner"][0], params)
                    if p:
                        res[p] |= {"W", "A"}
                if k == "UnaryOperator" and n.get("opcode") in ("++", "--"):
                    p = _lhs_param(n["inner"][0], params)
                    if p:
                        res[p] |= {"W", "A"}
                if k == "CallExpr":
                    c = strip(n["inner"][0])
                    cname = c["referencedDecl"]["name"] if c.get("kind") == "DeclRefExpr" else None
                    args = n["inner"][1:]
                    if cname == "qsort" and args:
                        p = _base_param(args[0], params)
                        if p:
                            res[p] |= {"W", "S"}
                    else:
                        cq = ckern.resolve(cname, fns, fn["file"]) if cname else None
                        if cq in eff:
                            cps = [x["name"] for x in fns[cq]["params"]]
                            for pn, a in zip(cps, args):
                                ce = eff[cq].get(pn)
                                if ce and ("W" in ce):
                                    p = _base_param(a, params)
                                    if p:
                                        res[p] |= {"W"} | ({"S"} if "S" in ce else set()) | ({"A"} if "A" in ce else set())
                                        if cond_depth > 0 or "P" in ce:
                                            res[p].add("P")
                        elif cname in ("memset", "memcpy", "memmove") and args:
                            p = _base_param(args[0], params)
                            if p:
                                res[p].add("W")
                for c in n.get("inner", []):
                    if c.get("kind"):
                        walk(c, cond_depth, loop_depth)
            walk(fn["body"], 0, 0)
            for p in params:
                if not res[p]:
                    res[p].add("R")
            eff[q] = res
            eff.setdefault(fn["name"], res)
    return eff


def _lhs_param(e, params):
    e = strip(e)
    k = e.get("kind")
    if k == "ArraySubscriptExpr" or (k == "UnaryOperator" and e.get("opcode") == "*"):
        return _base_param(e, params)
    return None
