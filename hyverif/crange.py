"""Symbolic range analysis of C kernels over clang's JSON AST (prototype).

Domain: each integer variable has a conjunction of symbolic lower bounds and a
conjunction of symbolic upper bounds (polynomials over entry values of the
integer parameters and over loop symbols).  Loop invariants by guard-derived
candidate checking (Houdini).  Records subscript / division obligations.
"""
import re
import itertools
from fractions import Fraction
from .poly import Poly, _p
from .cfront import strip, text

INT_TYPES = {"int", "long long", "long", "unsigned int", "unsigned long",
             "size_t", "short", "char", "const int", "const long long"}
MAXB = 6


SMALL_FACTOR = 16


def _literal_factor(node):
    """value of the integer-literal factor of a `*` node, if one side is a literal"""
    if node.get("kind") != "BinaryOperator" or node.get("opcode") != "*":
        return None
    for side in node.get("inner", []):
        n = strip(side)
        neg = 1
        if n.get("kind") == "UnaryOperator" and n.get("opcode") == "-":
            n, neg = strip(n["inner"][0]), -1
        if n.get("kind") == "IntegerLiteral":
            try:
                return neg * int(n.get("value"))
            except (TypeError, ValueError):
                return None
    return None


def _init_ints(decl):
    """integer literals of `T a[n] = {..}` (None when an element is not a literal)"""
    init = [c for c in decl.get("inner", []) if c.get("kind") == "InitListExpr"]
    if len(init) != 1:
        return None
    out = []
    for x in init[0].get("inner", []):
        y, sign = strip(x), 1
        while y.get("kind") in ("ImplicitCastExpr", "ParenExpr", "CStyleCastExpr", "ConstantExpr"):
            y = strip(y["inner"][0])
        if y.get("kind") == "UnaryOperator" and y.get("opcode") == "-":
            sign, y = -1, strip(y["inner"][0])
            while y.get("kind") in ("ImplicitCastExpr", "ParenExpr"):
                y = strip(y["inner"][0])
        if y.get("kind") != "IntegerLiteral":
            return None
        try:
            out.append(sign * int(y.get("value")))
        except (TypeError, ValueError):
            return None
    return out or None


def is_int_type(t):
    return t.replace("const ", "").strip() in INT_TYPES


class Bounds:
    __slots__ = ("lbs", "ubs")

    def __init__(self, lbs=(), ubs=()):
        self.lbs = tuple(dict.fromkeys(lbs))[:MAXB]
        self.ubs = tuple(dict.fromkeys(ubs))[:MAXB]

    @staticmethod
    def exact(p):
        p = _p(p)
        return Bounds((p,), (p,))

    def exact_val(self):
        for l in self.lbs:
            if l in self.ubs:
                return l
        return None

    def is_exact(self):
        return self.exact_val() is not None

    def __repr__(self):
        if self.is_exact():
            return f"={self.exact_val()}"
        return f"[{' & '.join(map(repr, self.lbs)) or '-inf'} .. {' & '.join(map(repr, self.ubs)) or '+inf'}]"


TOP = Bounds()


class State:
    def __init__(self):
        self.vars = {}
        self.sym_lb = {}
        self.sym_ub = {}
        self.facts = []
        self.dbl = {}        # double variable -> (lower Bounds polys tuple, upper polys tuple, nonneg flag)
        self.dead = False

    def copy(self):
        s = State()
        s.dbl = dict(self.dbl)
        s.vars = dict(self.vars)
        s.sym_lb = {k: list(v) for k, v in self.sym_lb.items()}
        s.sym_ub = {k: list(v) for k, v in self.sym_ub.items()}
        s.dead = self.dead
        s.facts = list(self.facts)
        return s

    def get(self, v):
        return self.vars.get(v, TOP)

    def fkey(self):
        return (tuple(sorted((k, tuple(v)) for k, v in self.sym_lb.items() if v)),
                tuple(sorted((k, tuple(v)) for k, v in self.sym_ub.items() if v)),
                tuple(self.facts))


# --------------------------------------------------------------------------
# prover
# --------------------------------------------------------------------------
class Prover:
    def __init__(self, order):
        self.order = order      # symbol creation order: later = eliminate first
        self.memo = {}

    def nonneg(self, d, st, depth=0, seen=None):
        d = _p(d)
        if d.is_const():
            return d.cval() >= 0
        if depth > 7:
            return False
        if depth == 0:
            key = (d, st.fkey())
            r = self.memo.get(key)
            if r is None:
                r = self._nonneg(d, st, 0)
                self.memo[key] = r
            return r
        return self._nonneg(d, st, depth)

    def _nonneg(self, d, st, depth):
        syms = sorted(d.symbols(), key=lambda s: -self.order.get(s, -1))
        # fast path: shift by numeric lower bounds
        if self._shift(d, st, syms):
            return True
        if depth < 2:
            for f in st.facts:
                if f.symbols() & d.symbols():
                    e = d - f
                    if e.is_const():
                        if e.cval() >= 0:
                            return True
                    elif self._shift(e, st, sorted(e.symbols())):
                        return True
        for z in syms:
            sp = d.split_linear(z)
            if sp is None:
                continue
            A, B = sp
            lbs = st.sym_lb.get(z, [])
            ubs = st.sym_ub.get(z, [])
            if lbs and self.nonneg(A, st, depth + 1):
                for lb in lbs:
                    if z in lb.symbols():
                        continue
                    if self.nonneg(A * lb + B, st, depth + 1):
                        return True
            if ubs and self.nonneg(-A, st, depth + 1):
                for ub in ubs:
                    if z in ub.symbols():
                        continue
                    if self.nonneg(A * ub + B, st, depth + 1):
                        return True
        return False

    def _shift(self, d, st, syms):
        e = d
        for s in syms:
            L = None
            for lb in st.sym_lb.get(s, []):
                if lb.is_const():
                    L = lb.cval() if L is None else max(L, lb.cval())
            if L is None:
                return False
            e = e.subst(s, Poly.sym(s) + L)
        return all(c >= 0 for c in e.t.values())

    def le(self, a, b, st):
        return self.nonneg(_p(b) - _p(a), st)


# --------------------------------------------------------------------------
class Obl:
    def __init__(self, kind, fn, line, txt, arr=None, side=None, detail=""):
        self.kind, self.fn, self.line, self.txt = kind, fn, line, txt
        self.arr, self.side, self.detail = arr, side, detail
        self.proved = False
        self.req = None     # for pointer params: required extent polys
        self.facts = None   # numeric bounds on parameter symbols valid on every visit of the construct

    def key(self):
        return (self.kind, self.fn, self.txt, self.side)

    def __repr__(self):
        return f"{self.kind}:{self.fn}:{self.line}:{self.txt}:{self.side} {'OK' if self.proved else 'UNPROVEN'} {self.detail}"


class Summary:
    def __init__(self, name):
        self.name = name
        self.params = []        # (name, type)
        self.req_ext = {}       # ptr param -> list of Poly (extent needed >= each)
        self.stores = {}        # ptr param -> Bounds of stored values (entry syms) or None
        self.pre = []           # list of (sym, c): requires sym >= c
        self.unproven = []      # Obl
        self.proved = []
        self.retvals = None
        self.alt = None


_BATCH = {}


def _batch_worker(i):
    an, fn, cands = _BATCH["job"]
    return an._run(fn, cands[i])


def _run_batch(an, fn, cands):
    """independent re-runs under different assumption sets, in forked children"""
    import concurrent.futures as cf
    import multiprocessing as mp
    _BATCH["job"] = (an, fn, cands)
    try:
        with cf.ProcessPoolExecutor(max_workers=min(8, len(cands)), mp_context=mp.get_context("fork")) as ex:
            return list(ex.map(_batch_worker, range(len(cands))))
    finally:
        _BATCH.pop("job", None)


class Analyzer:
    def __init__(self, fns, summaries, verbose=False):
        self.fns = fns
        self.summ = summaries
        self.verbose = verbose

    # ---- entry ----------------------------------------------------------
    def analyze(self, name, parallel=True):
        """run the function under no assumption, then abduce the weakest set of
        preconditions `P >= c` (c in 0, 1, 2) on integer parameters that discharges
        more obligations without making any obligation disappear (dead code)"""
        fn = self.fns[name]
        intparams = [p["name"] for p in fn["params"] if is_int_type(p["type"]["qualType"])]
        base = self._run(fn, [])
        total = len(base.proved) + len(base.unproven)
        assum = []
        res = base

        def relevant(r):
            words = set()
            for o in r.unproven:
                w = set(re.findall(r"[A-Za-z_]\w*", f"{o.txt} {o.detail}"))
                if not (w & set(intparams)):
                    return intparams         # an obligation that names no parameter: anything may help
                words |= w
            rel = [p for p in intparams if p in words]
            return rel or intparams

        def batch(cands):
            if parallel and len(cands) > 1:
                return _run_batch(self, fn, cands)
            return [self._run(fn, c) for c in cands]

        if res.unproven:
            rel = relevant(res)
            a0 = [(p, 0) for p in rel]
            r0 = self._run(fn, a0)
            if len(r0.unproven) < len(res.unproven) and len(r0.proved) + len(r0.unproven) >= total:
                # keep only the >=0 assumptions that matter
                keep = []
                for a in a0:
                    rest = [x for x in a0 if x != a and (x in keep or a0.index(x) > a0.index(a))]
                    rr = self._run(fn, rest)
                    if len(rr.unproven) > len(r0.unproven):
                        keep.append(a)
                assum = keep
                res = self._run(fn, assum) if keep != a0 else r0
        improved = True
        while res.unproven and improved:
            improved = False
            bestc = None
            cands = []
            for p in relevant(res):
                for c in (1, 2):
                    if (p, c) in assum:
                        continue
                    cands.append([a for a in assum if a[0] != p] + [(p, c)])
            for cand, r in zip(cands, batch(cands)):
                if len(r.proved) + len(r.unproven) >= total and len(r.unproven) < len(res.unproven) and \
                        (bestc is None or len(r.unproven) < len(bestc[1].unproven)):
                    bestc = (cand, r)
            if bestc:
                assum, res = bestc
                improved = True
        res.pre = assum
        # fallback variant: the same function under "every integer parameter is >= 0" (what a shim that binds
        # them to array dimensions establishes); used by the shim check when the unconditional requirement fails
        res.alt = None
        extra = [(p, 0) for p in intparams if not any(a[0] == p for a in assum)]
        if extra and any(k in self.ptr_params for k in res.req_ext):
            alt = self._run(fn, assum + extra)
            if len(alt.proved) + len(alt.unproven) >= total and len(alt.unproven) <= len(res.unproven):
                alt.pre = assum + extra
                alt.alt = None
                res.alt = alt
        self.summ[name] = res
        return res

    def _run(self, fn, assum):
        self.fn = fn
        self.fname = fn["name"]
        self.obls = {}
        self.order = {}
        self.nsym = 0
        self.quiet = 0
        self.ptr_params = {}
        self.local_arrays = {}    # name -> extent Poly
        self.stores = {}
        self.calls_pre = []
        self.collect = None
        self.collect_mods = set()
        self.inv_cache = {}
        self.prover = Prover(self.order)
        st = State()
        for p in fn["params"]:
            n, t = p["name"], p["type"]["qualType"]
            if is_int_type(t):
                self._newsym(n)
                st.vars[n] = Bounds.exact(Poly.sym(n))
            elif t.endswith("*"):
                self.ptr_params[n] = t
        for s, c in assum:
            st.sym_lb.setdefault(s, []).append(Poly.const(c))
        self.ret_states = []
        self.ctx = []
        self.ov = []
        self.in_index = 0
        out = self.exec(fn["body"], st)
        self._decide_ov()
        summ = Summary(self.fname)
        summ.params = [(p["name"], p["type"]["qualType"]) for p in fn["params"]]
        for o in self.obls.values():
            (summ.proved if o.proved else summ.unproven).append(o)
            if o.proved and o.arr in self.ptr_params and o.side == "hi" and o.req:
                summ.req_ext.setdefault(o.arr, []).append((o.req, o.line, o.txt, o.facts or {}))
        summ.stores = {k: v[0] for k, v in self.stores.items()}
        return summ

    def _store(self, arr, val, st):
        """values stored through pointer parameter `arr`: joined with what was stored before, each side
        compared under the facts of its own store site"""
        old = self.stores.get(arr)
        if old is None:
            self.stores[arr] = (val, st.copy())
            return
        ob, ost = old
        nb = self.join_bounds(ob, ost, val, st)
        ns = self.join(ost.copy(), st.copy())
        self.stores[arr] = (nb, ns if ns is not None else st.copy())

    def _decide_ov(self):
        """32-bit products: fine inside a proven subscript index (index + 1 <= extent < 2^31 by assumption), when the
        bounds are numeric and small, or when the product is bounded by the extent of a block of this function"""
        LIM = 2 ** 31 - 1
        extents = list(self.local_arrays.values())
        for o in self.obls.values():
            if o.kind == "B" and o.side == "hi" and o.req:
                extents += list(o.req)
        seen = {}
        for node, txt, b, st, inidx in self.ov:
            key = (node["_line"], txt)
            ok = inidx
            why = "part of an array index (bounded by the block size)" if inidx else ""
            if not ok and b.lbs and b.ubs:
                if any(u.is_const() and u.cval() <= LIM for u in b.ubs) and any(l.is_const() and l.cval() >= -LIM for l in b.lbs):
                    ok, why = True, "numeric bounds"
            if not ok and b.ubs and any(self.prover.nonneg(l, st) for l in b.lbs):
                for u in b.ubs:
                    for ext in extents:
                        if self.prover.nonneg(ext - u, st):
                            ok, why = True, f"bounded by a block size ({ext})"
                            break
                    if ok:
                        break
            if not ok and b.ubs and any(self.prover.nonneg(l, st) for l in b.lbs):
                # c * x with a small literal c grows like the sums (x + x) the analysis does not question either
                c = _literal_factor(node)
                if c is not None and 2 <= abs(c) <= SMALL_FACTOR:
                    for u in b.ubs:
                        if any(self.prover.nonneg(ext * abs(c) - u, st) for ext in extents):
                            ok, why = True, f"{abs(c)} times a value bounded by a block size (arrays assumed to hold fewer than 2^31 / {SMALL_FACTOR} elements)"
                            break
            prev = seen.get(key)
            seen[key] = (ok if prev is None else (prev[0] and ok), why, node, b)
        for (line, txt), (ok, why, node, b) in seen.items():
            self._ob("OV", node, txt, None, "mul", ok, detail=why if ok else f"32-bit product with range {b} is not bounded by a block size or by constants: signed overflow is undefined")

    def _newsym(self, name):
        self.order[name] = self.nsym
        self.nsym += 1

    # ---- obligations ----------------------------------------------------
    def _pathfacts(self, st):
        out = {}
        for s_ in set(st.sym_lb) | set(st.sym_ub):
            if s_.startswith("#"):
                continue
            lb = [x.cval() for x in st.sym_lb.get(s_, []) if x.is_const()]
            ub = [x.cval() for x in st.sym_ub.get(s_, []) if x.is_const()]
            out[s_] = (max(lb) if lb else None, min(ub) if ub else None)
        return out

    def _ob(self, kind, node, txt, arr, side, ok, detail="", req=None, st=None):
        if self.quiet:
            return
        key = (kind, node["_line"], txt, side)
        o = self.obls.get(key)
        pf = self._pathfacts(st) if st is not None else {}
        if o is None:
            o = Obl(kind, self.fname, node["_line"], txt, arr, side, detail)
            o.proved = True
            o.facts = pf
            self.obls[key] = o
        else:
            old = o.facts or {}
            new = {}
            for s_ in set(old) & set(pf):
                (l1, u1), (l2, u2) = old[s_], pf[s_]
                l = None if l1 is None or l2 is None else min(l1, l2)
                u = None if u1 is None or u2 is None else max(u1, u2)
                if l is not None or u is not None:
                    new[s_] = (l, u)
            o.facts = new
        if not ok:
            o.proved = False
            o.detail = detail
        if req is not None:
            if o.req is None:
                o.req = req
            else:
                # several visits: keep alternatives valid on all of them when possible
                both = tuple(q for q in o.req if q in req)
                o.req = both or tuple(dict.fromkeys(o.req + req))

    # ---- closing loop symbols ------------------------------------------
    def close_up(self, p, st, depth=0):
        """polys over parameter symbols only that are >= p"""
        loops = [s for s in p.symbols() if s.startswith("#")]
        if not loops:
            return [p]
        if depth > 5:
            return []
        z = max(loops, key=lambda s: self.order[s])
        sp = p.split_linear(z)
        if sp is None:
            return []
        A, B = sp
        out = []
        if self.prover.nonneg(A, st):
            for ub in st.sym_ub.get(z, []):
                out += self.close_up(A * ub + B, st, depth + 1)
        elif self.prover.nonneg(-A, st):
            for lb in st.sym_lb.get(z, []):
                out += self.close_up(A * lb + B, st, depth + 1)
        return out[:MAXB]

    def close_lo(self, p, st):
        return [-q for q in self.close_up(-p, st)]

    # ---- array access ---------------------------------------------------
    def access(self, node, arr, idx, st, txt, extra_hi=0):
        """record obligations for arr[idx .. idx+extra_hi]"""
        okl = any(self.prover.nonneg(lb, st) for lb in idx.lbs)
        self._ob("B", node, txt, arr, "lo", okl, detail=f"idx {idx}", st=st)
        if arr in self.local_arrays:
            ext = self.local_arrays[arr]
            okh = any(self.prover.nonneg(ext - 1 - (ub + extra_hi), st) for ub in idx.ubs)
            self._ob("B", node, txt, arr, "hi", okh, detail=f"idx {idx} extent {ext}", st=st)
        elif arr in self.ptr_params:
            reqs = []
            for ub in idx.ubs:
                reqs += [q + extra_hi + 1 for q in self.close_up(ub, st)]
            reqs = [r for r in reqs if not any(s.startswith("#") for s in r.symbols())]
            self._ob("B", node, txt, arr, "hi", bool(reqs), detail=f"idx {idx} (no finite bound)",
                     req=tuple(reqs) if reqs else None, st=st)
        else:
            self._ob("B", node, txt, arr, "hi", False, detail="unknown array")

    # ---- expressions ----------------------------------------------------
    def varname(self, e):
        """name of a scalar l-value, incl. size-1 local arrays; else None"""
        e = strip(e)
        k = e.get("kind")
        if k == "DeclRefExpr":
            n = e["referencedDecl"]["name"]
            if n in self.local_arrays and self.local_arrays[n] == Poly.const(1):
                return None
            return n
        if k == "ArraySubscriptExpr":
            b = strip(e["inner"][0])
            if b.get("kind") == "DeclRefExpr" and self.local_arrays.get(b["referencedDecl"]["name"]) == Poly.const(1):
                return b["referencedDecl"]["name"] + "[0]"
        if k == "UnaryOperator" and e.get("opcode") == "*":
            b = strip(e["inner"][0])
            if b.get("kind") == "DeclRefExpr" and self.local_arrays.get(b["referencedDecl"]["name"]) == Poly.const(1):
                return b["referencedDecl"]["name"] + "[0]"
        return None

    def ev(self, e, st):
        """Bounds of an integer expression; records obligations of sub-expressions"""
        k = e.get("kind")
        if k in ("ParenExpr", "ConstantExpr"):
            return self.ev(e["inner"][0], st)
        if k == "ImplicitCastExpr" or k == "CStyleCastExpr":
            ck = e.get("castKind")
            inner = self.ev(e["inner"][0], st)
            if ck in ("LValueToRValue", "NoOp", "IntegralCast"):
                return inner if is_int_type(e["type"]["qualType"]) else TOP
            if ck == "FloatingToIntegral":
                b = self.fbounds(e["inner"][0], st)
                tgt = e["type"]["qualType"].replace("const ", "").strip()
                ok = b is not None
                if ok and tgt in ("int", "short", "char", "unsigned int"):
                    # 32-bit target: the bounds must be numeric and inside the type's range
                    ok = any(l.is_const() and l.cval() >= -2**31 for l in b.lbs) and \
                        any(u.is_const() and u.cval() <= 2**31 - 1 for u in b.ubs)
                self._ob("FC", e, text(e), None, "cast", ok,
                         detail="" if ok else "double->int conversion of a value that is not bounded by a dominating "
                         "comparison (NaN / out-of-range conversion is undefined)", st=st)
                return b if ok else TOP
            return TOP
        if k == "IntegerLiteral":
            return Bounds.exact(int(e["value"]))
        if k == "DeclRefExpr":
            n = e["referencedDecl"]["name"]
            if is_int_type(e["type"]["qualType"]):
                return st.get(n)
            return TOP
        if k == "UnaryOperator":
            op = e["opcode"]
            if op == "-":
                b = self.ev(e["inner"][0], st)
                return Bounds([-u for u in b.ubs], [-l for l in b.lbs])
            if op in ("++", "--"):
                return self.incdec(e, st)
            if op == "*":
                return self.load(e, st)
            if op == "!":
                self.ev(e["inner"][0], st)
                return Bounds((_p(0),), (_p(1),))
            if op == "&":
                self.ev_addr(e["inner"][0], st)
                return TOP
            self.ev(e["inner"][0], st)
            return TOP
        if k == "ArraySubscriptExpr":
            return self.load(e, st)
        if k == "BinaryOperator":
            op = e["opcode"]
            if op == "=":
                return self.assign(e, st)
            if op == ",":
                self.ev(e["inner"][0], st)
                return self.ev(e["inner"][1], st)
            if op in ("&&", "||"):
                # short-circuit: the right operand is evaluated only when the left one is true (&&) / false (||)
                self.ev(e["inner"][0], st)
                s2 = self.refine(e["inner"][0], st.copy(), op == "&&")
                if not s2.dead:
                    self.ev(e["inner"][1], s2)
                return Bounds((_p(0),), (_p(1),))
            a = self.ev(e["inner"][0], st)
            b = self.ev(e["inner"][1], st)
            if not is_int_type(e["type"]["qualType"]):
                return TOP
            if op == "+":
                return Bounds([x + y for x in a.lbs for y in b.lbs], [x + y for x in a.ubs for y in b.ubs])
            if op == "-":
                return Bounds([x - y for x in a.lbs for y in b.ubs], [x - y for x in a.ubs for y in b.lbs])
            if op == "*":
                r = self.mul(a, b, st)
                if e["type"]["qualType"].replace("const ", "").strip() in ("int", "short", "unsigned int") and not self.quiet:
                    self.ov.append((e, text(e), r, st.copy(), getattr(self, "in_index", 0) > 0))
                return r
            if op in ("/", "%"):
                nz = any(self.prover.nonneg(lb - 1, st) for lb in b.lbs) or \
                    any(self.prover.nonneg(-ub - 1, st) for ub in b.ubs)
                self._ob("DZ", e, text(e), None, "div", nz, detail=f"divisor {b}", st=st)
                if op == "%":
                    if any(self.prover.nonneg(lb, st) for lb in a.lbs) and \
                            any(self.prover.nonneg(lb - 1, st) for lb in b.lbs):
                        return Bounds((_p(0),), tuple(u - 1 for u in b.ubs) + a.ubs)
                    return TOP
                if b.is_exact() and b.exact_val().is_const() and b.exact_val().cval() > 0 and \
                        any(self.prover.nonneg(lb, st) for lb in a.lbs):
                    c = b.exact_val().cval()
                    return Bounds((_p(0),), tuple(u * Fraction(1, c) for u in a.ubs))
                return TOP
            if op in ("<", "<=", ">", ">=", "==", "!=", "&&", "||"):
                return Bounds((_p(0),), (_p(1),))
            return TOP
        if k == "CompoundAssignOperator":
            return self.compound(e, st)
        if k == "ConditionalOperator":
            c, a, b = e["inner"]
            self.ev(c, st)
            s1 = self.refine(c, st.copy(), True)
            s2 = self.refine(c, st.copy(), False)
            ba = self.ev(a, s1) if not s1.dead else None
            bb = self.ev(b, s2) if not s2.dead else None
            if ba is None:
                return bb or TOP
            if bb is None:
                return ba
            return self.join_bounds(ba, s1, bb, s2)
        if k == "CallExpr":
            return self.call(e, st)
        if k == "UnaryExprOrTypeTraitExpr":
            return TOP
        for c in e.get("inner", []):
            if c.get("kind"):
                self.ev(c, st)
        return TOP

    def fconst(self, name):
        """value of a local double assigned exactly once, from a literal"""
        tab = getattr(self, "_fconst", None)
        if tab is None:
            tab = self._fconst = {}
            cnt = {}

            def walk(n):
                k = n.get("kind")
                if k == "BinaryOperator" and n.get("opcode") == "=" or k == "CompoundAssignOperator":
                    t = strip(n["inner"][0])
                    if t.get("kind") == "DeclRefExpr":
                        nm = t["referencedDecl"]["name"]
                        cnt[nm] = cnt.get(nm, 0) + 1
                        r = strip(n["inner"][1])
                        while r.get("kind") in ("ImplicitCastExpr", "ParenExpr"):
                            r = r["inner"][0]
                        if k == "BinaryOperator" and r.get("kind") in ("FloatingLiteral", "IntegerLiteral"):
                            tab[nm] = float(r["value"])
                        else:
                            tab[nm] = None
                if k == "VarDecl" and n.get("inner"):
                    init = [c for c in n["inner"] if c.get("kind")]
                    if init:
                        cnt[n["name"]] = cnt.get(n["name"], 0) + 1
                        r = init[0]
                        while r.get("kind") in ("ImplicitCastExpr", "ParenExpr"):
                            r = r["inner"][0]
                        tab[n["name"]] = float(r["value"]) if r.get("kind") in ("FloatingLiteral", "IntegerLiteral") else None
                if k == "UnaryOperator" and n.get("opcode") in ("++", "--", "&"):
                    t = strip(n["inner"][0])
                    if t.get("kind") == "DeclRefExpr":
                        cnt[t["referencedDecl"]["name"]] = 99
                for c in n.get("inner", []):
                    if c.get("kind"):
                        walk(c)
            walk(self.fn["body"])
            for nm, c in cnt.items():
                if c != 1:
                    tab[nm] = None
        return tab.get(name)

    def fbounds(self, e, st):
        """integer Bounds enclosing trunc(e) for a double expression e, or None when e is not known to be
        finite and bounded on both sides.  Vocabulary: a double variable bounded by dominating comparisons
        with integer expressions; an integer converted to double; a product of such a value with a factor
        of magnitude <= 1 (literal or single-assignment literal variable)."""
        while e.get("kind") in ("ParenExpr", "ConstantExpr") or \
                (e.get("kind") == "ImplicitCastExpr" and e.get("castKind") in ("LValueToRValue", "NoOp")):
            e = e["inner"][0]
        k = e.get("kind")
        if k == "DeclRefExpr":
            f = st.dbl.get(e["referencedDecl"]["name"])
            if f and f[0] and f[1]:
                return Bounds(f[0], f[1])
            return None
        if k in ("ImplicitCastExpr", "CStyleCastExpr") and e.get("castKind") == "IntegralToFloating":
            q = self.quiet
            self.quiet += 1
            b = self.ev(e["inner"][0], st)
            self.quiet = q
            if b.lbs and b.ubs:
                return b
            # any 64-bit integer converted to double and back is in range except at the extreme; accept a
            # value with unknown range only as a factor (handled by the caller)
            return None
        if k == "BinaryOperator" and e.get("opcode") == "*":
            a, b = e["inner"]
            for x, y in ((a, b), (b, a)):
                c = self.fmag(y)
                if c is not None and abs(c) <= 1:
                    bx = self.fbounds(x, st)
                    if bx is None:
                        bx = self.fint(x, st)
                    if bx is not None:
                        import math
                        from fractions import Fraction as _F
                        cf = _F(c).limit_denominator(10 ** 12)

                        def sc(polys, up):
                            out = []
                            for q in polys:
                                if q.is_const():
                                    v = q.cval() * cf
                                    out.append(_p(math.ceil(v) if up else math.floor(v)))
                            return out
                        if c >= 0:
                            lo = sc(bx.lbs, False) or list(self._minzero(bx.lbs))
                            hi = sc(bx.ubs, True) or list(self._maxzero(bx.ubs))
                            return Bounds(tuple(lo), tuple(hi))
                        lo = sc(bx.ubs, False) or list(self._minzero([-u for u in bx.ubs]))
                        hi = sc(bx.lbs, True) or list(self._maxzero([-l for l in bx.lbs]))
                        return Bounds(tuple(lo), tuple(hi))
        return None

    def _minzero(self, lbs):
        """lower bounds of min(0, x) given lower bounds of x: a constant lb >= 0 gives 0"""
        out = []
        for l in lbs:
            if l.is_const():
                out.append(_p(min(0, l.cval())))
        return tuple(out) or ()

    def _maxzero(self, ubs):
        out = []
        for u in ubs:
            if u.is_const():
                out.append(_p(max(0, u.cval())))
            else:
                out.append(u)      # u >= value; if value <= u and u may be negative the product is still <= max(0,u); keep u only with u >= 0 proof
        return tuple(out)

    def fint(self, e, st):
        """(double)intexpr with full 64-bit range is still convertible when scaled by |c| <= 1 < 1: use type range"""
        while e.get("kind") in ("ParenExpr",):
            e = e["inner"][0]
        if e.get("kind") in ("ImplicitCastExpr", "CStyleCastExpr") and e.get("castKind") == "IntegralToFloating":
            q = self.quiet
            self.quiet += 1
            b = self.ev(e["inner"][0], st)
            self.quiet = q
            lbs = b.lbs or (_p(-2**62),)
            ubs = b.ubs or (_p(2**62),)
            return Bounds(lbs, ubs)
        return None

    def fmag(self, e):
        while e.get("kind") in ("ParenExpr", "ImplicitCastExpr"):
            e = e["inner"][0]
        if e.get("kind") in ("FloatingLiteral", "IntegerLiteral"):
            return float(e["value"])
        if e.get("kind") == "DeclRefExpr":
            return self.fconst(e["referencedDecl"]["name"])
        return None

    def mul(self, a, b, st):
        if a.is_exact() and not b.is_exact():
            a, b = b, a
        # b exact poly p
        if b.is_exact():
            p = b.exact_val()
            if self.prover.nonneg(p, st):
                return Bounds([x * p for x in a.lbs], [x * p for x in a.ubs])
            if self.prover.nonneg(-p, st):
                return Bounds([x * p for x in a.ubs], [x * p for x in a.lbs])
            if a.is_exact():
                return Bounds.exact(a.exact_val() * p)
            return TOP
        # both ranges: need non-negativity of both
        if any(self.prover.nonneg(l, st) for l in a.lbs) and any(self.prover.nonneg(l, st) for l in b.lbs):
            lbs = [x * y for x in a.lbs for y in b.lbs if self.prover.nonneg(x, st) and self.prover.nonneg(y, st)]
            ubs = [x * y for x in a.ubs for y in b.ubs]
            return Bounds(lbs, ubs)
        return TOP

    def base_array(self, e):
        b = strip(e)
        if b.get("kind") == "DeclRefExpr":
            return b["referencedDecl"]["name"]
        return None

    def load(self, e, st):
        k = e.get("kind")
        vn = self.varname(e)
        if vn is not None and vn.endswith("[0]"):
            if k == "ArraySubscriptExpr":
                self.ev(e["inner"][1], st)
            return st.get(vn)
        if k == "UnaryOperator":       # *p
            arr = self.base_array(e["inner"][0])
            if arr:
                self.access(e, arr, Bounds.exact(0), st, text(e))
            return TOP
        base, idx = e["inner"]
        self.in_index = getattr(self, "in_index", 0) + 1
        ib = self.ev(idx, st)
        self.in_index -= 1
        sb = strip(base)
        if sb.get("kind") == "ArraySubscriptExpr":     # 2-d local: row then column
            self.load(sb, st)
            m = re.search(r"\[(\d+)\]$", sb["type"]["qualType"])
            if m:
                n = int(m.group(1))
                ok = any(self.prover.nonneg(l, st) for l in ib.lbs) and \
                    any(self.prover.nonneg(n - 1 - u, st) for u in ib.ubs)
                self._ob("B", e, text(e), "row", "both", ok)
            return TOP
        arr = self.base_array(base)
        if arr is None:
            self._ob("B", e, text(e), None, "hi", False, detail="complex base")
            return TOP
        self.access(e, arr, ib, st, text(e))
        if is_int_type(e["type"]["qualType"]):
            return st.get(arr + "[*]")
        return TOP

    def ev_addr(self, e, st):
        """&a[k] -> (array, offset bounds)"""
        e = strip(e)
        if e.get("kind") == "ArraySubscriptExpr":
            arr = self.base_array(e["inner"][0])
            off = self.ev(e["inner"][1], st)
            return arr, off
        return None, TOP

    def store_to(self, lhs, val, st):
        lhs_s = strip(lhs)
        if lhs_s.get("kind") == "DeclRefExpr" and not is_int_type(lhs_s["type"]["qualType"]):
            st.dbl.pop(lhs_s["referencedDecl"]["name"], None)
        vn = self.varname(lhs_s)
        k = lhs_s.get("kind")
        if vn is not None:
            if k == "ArraySubscriptExpr":
                self.ev(lhs_s["inner"][1], st)
            if is_int_type(lhs_s["type"]["qualType"]):
                st.vars[vn] = val
                if self.collect is not None and vn in self.collect_mods:
                    self.collect.setdefault(vn, []).append((val, st.copy()))
            return
        if k == "ArraySubscriptExpr" or (k == "UnaryOperator" and lhs_s.get("opcode") == "*"):
            self.load(lhs_s, st)        # records the access obligations
            arr = self.base_array(lhs_s["inner"][0])
            if arr and is_int_type(lhs_s["type"]["qualType"]):
                if arr in self.local_arrays:
                    key = arr + "[*]"
                    old = st.vars.get(key)
                    st.vars[key] = val if old is None else self.join_bounds(old, st, val, st)
                elif arr in self.ptr_params and not self.quiet:
                    cl = Bounds([q for l in val.lbs for q in self.close_lo(l, st)],
                                [q for u in val.ubs for q in self.close_up(u, st)])
                    self._store(arr, cl, st)
            elif arr in self.ptr_params and not self.quiet:
                self._store(arr, TOP, st)

    def assign(self, e, st):
        lhs, rhs = e["inner"]
        val = self.ev(rhs, st)
        self.store_to(lhs, val, st)
        return val

    def compound(self, e, st):
        lhs, rhs = e["inner"]
        op = e["opcode"]
        cur = self.ev(lhs, st)
        r = self.ev(rhs, st)
        if not is_int_type(strip(lhs)["type"]["qualType"]):
            self.store_to(lhs, TOP, st)
            return TOP
        if op == "+=":
            val = Bounds([x + y for x in cur.lbs for y in r.lbs], [x + y for x in cur.ubs for y in r.ubs])
        elif op == "-=":
            val = Bounds([x - y for x in cur.lbs for y in r.ubs], [x - y for x in cur.ubs for y in r.lbs])
        elif op == "*=":
            val = self.mul(cur, r, st)
        else:
            val = TOP
        self.store_to(lhs, val, st)
        return val

    def incdec(self, e, st):
        tgt = e["inner"][0]
        cur = self.ev(tgt, st)
        d = 1 if e["opcode"] == "++" else -1
        if not is_int_type(strip(tgt)["type"]["qualType"]):
            return TOP
        val = Bounds([x + d for x in cur.lbs], [x + d for x in cur.ubs])
        self.store_to(tgt, val, st)
        return cur if e.get("isPostfix") else val

    # ---- calls ----------------------------------------------------------
    def pick_summary(self, name, args, st):
        """the callee's summary; its ">= 0 world" variant when that variant's preconditions hold at this call"""
        sm = self.summ.get(name)
        alt = getattr(sm, "alt", None)
        if alt is None:
            return sm
        q_ = self.quiet
        self.quiet += 1
        okalt = True
        for (pn, pt), a in zip(alt.params, args):
            need = [c for s_, c in alt.pre if s_ == pn]
            if need and is_int_type(pt):
                b_ = self.ev(a, st)
                if not any(self.prover.nonneg(lb - max(need), st) for lb in b_.lbs):
                    okalt = False
                    break
        self.quiet = q_
        return alt if okalt else sm

    def call(self, e, st):
        callee = strip(e["inner"][0])
        name = callee.get("referencedDecl", {}).get("name") if callee.get("kind") == "DeclRefExpr" else None
        args = e["inner"][1:]
        if name in self.summ and name in self.fns or name in self.summ:
            sm = self.pick_summary(name, args, st)
            sub = {}
            ptrs = {}
            for (pn, pt), a in zip(sm.params, args):
                if is_int_type(pt):
                    sub[pn] = self.ev(a, st)
                elif pt.endswith("*"):
                    sa = strip(a)
                    if sa.get("kind") == "UnaryOperator" and sa.get("opcode") == "&":
                        ptrs[pn] = self.ev_addr(sa["inner"][0], st)
                    else:
                        ptrs[pn] = (self.base_array(a), Bounds.exact(0))
                else:
                    self.ev(a, st)

            def inst(p):
                for s in list(p.symbols()):
                    b = sub.get(s)
                    if b is None or not b.is_exact():
                        return None
                for s in list(p.symbols()):
                    p = p.subst(s, sub[s].exact_val()) if s in sub else p
                return p
            # preconditions
            for s, c in sm.pre:
                b = sub.get(s, TOP)
                ok = any(self.prover.nonneg(lb - c, st) for lb in b.lbs)
                self._ob("PRE", e, f"{name}: {s}>={c}", None, "pre", ok, detail=f"arg {b}", st=st)
            # extents
            for pn, reqs in sm.req_ext.items():
                arr, off = ptrs.get(pn, (None, TOP))
                if arr is None:
                    continue
                for (polys, line, txt, _pf) in reqs:
                    done = False
                    for q in polys:
                        qi = inst(q)
                        if qi is None:
                            continue
                        idx = Bounds(off.lbs, [u + qi - 1 for u in off.ubs])
                        self.access(e, arr, idx, st, f"{name}({pn}:{txt})")
                        done = True
                        break
                    if not done:
                        self._ob("B", e, f"{name}({pn}:{txt})", arr, "hi", False, detail="cannot instantiate callee extent")
            # stores
            for pn, sb in sm.stores.items():
                arr, off = ptrs.get(pn, (None, TOP))
                if arr is None:
                    continue
                lbs = [x for x in (inst(l) for l in sb.lbs) if x is not None]
                ubs = [x for x in (inst(u) for u in sb.ubs) if x is not None]
                val = Bounds(lbs, ubs)
                if arr in self.local_arrays:
                    key = arr + ("[0]" if self.local_arrays[arr] == Poly.const(1) else "[*]")
                    old = st.vars.get(key)
                    st.vars[key] = val if old is None else self.join_bounds(old, st, val, st)
                elif arr in self.ptr_params and not self.quiet:
                    self._store(arr, val, st)
            return TOP
        # library / unknown
        if name == "qsort":
            arr = self.base_array(args[0])
            n = self.ev(args[1], st)
            if arr:
                idx = Bounds((_p(0),), [u - 1 for u in n.ubs])
                if n.ubs:
                    self.access(e, arr, idx, st, f"qsort({arr},{text(args[1])})")
                if arr in self.ptr_params and not self.quiet:
                        self._store(arr, TOP, st)
            return TOP
        if name in ("malloc", "calloc"):
            return TOP
        for a in args:
            self.ev(a, st)
        return TOP

    # ---- joins ----------------------------------------------------------
    def join_bounds(self, a, sa, b, sb):
        if a.lbs == b.lbs and a.ubs == b.ubs:
            return a
        lbs = [x for x in a.lbs if x in b.lbs or any(self.prover.nonneg(y - x, sb) for y in b.lbs)] + \
              [y for y in b.lbs if y not in a.lbs and any(self.prover.nonneg(x - y, sa) for x in a.lbs)]
        ubs = [x for x in a.ubs if x in b.ubs or any(self.prover.nonneg(x - y, sb) for y in b.ubs)] + \
              [y for y in b.ubs if y not in a.ubs and any(self.prover.nonneg(y - x, sa) for x in a.ubs)]
        return Bounds(lbs, ubs)

    def join(self, s1, s2):
        if s1 is None or s1.dead:
            return s2
        if s2 is None or s2.dead:
            return s1
        r = State()
        for v in set(s1.vars) & set(s2.vars):
            r.vars[v] = self.join_bounds(s1.vars[v], s1, s2.vars[v], s2)
        for s in set(s1.sym_lb) | set(s2.sym_lb):
            l1, l2 = s1.sym_lb.get(s, []), s2.sym_lb.get(s, [])
            keep = [x for x in l1 if any(self.prover.nonneg(y - x, s2) for y in l2)] + \
                   [y for y in l2 if any(self.prover.nonneg(x - y, s1) for x in l1)]
            if keep:
                r.sym_lb[s] = list(dict.fromkeys(keep))
        r.facts = [f for f in s1.facts if f in s2.facts]
        for dv in set(s1.dbl) & set(s2.dbl):
            if s1.dbl[dv] == s2.dbl[dv]:
                r.dbl[dv] = s1.dbl[dv]
        for s in set(s1.sym_ub) | set(s2.sym_ub):
            l1, l2 = s1.sym_ub.get(s, []), s2.sym_ub.get(s, [])
            keep = [x for x in l1 if any(self.prover.nonneg(x - y, s2) for y in l2)] + \
                   [y for y in l2 if any(self.prover.nonneg(y - x, s1) for x in l1)]
            if keep:
                r.sym_ub[s] = list(dict.fromkeys(keep))
        return r

    # ---- refinement -----------------------------------------------------
    def lin(self, e):
        """(varname, const) if e is var or var +/- literal"""
        e = strip(e)
        vn = self.varname(e)
        if vn:
            return vn, 0
        if e.get("kind") == "BinaryOperator" and e["opcode"] in ("+", "-"):
            a, b = strip(e["inner"][0]), strip(e["inner"][1])
            if b.get("kind") == "IntegerLiteral" and self.varname(a):
                c = int(b["value"])
                return self.varname(a), (c if e["opcode"] == "+" else -c)
        return None, 0

    def add_ub(self, st, vn, u):
        b = st.get(vn)
        st.vars[vn] = Bounds(b.lbs, (u,) + b.ubs)
        self._facts(st, vn)
        if b.is_exact():
            self._symfact(st, b.exact_val(), u, "ub")

    def add_lb(self, st, vn, l):
        b = st.get(vn)
        st.vars[vn] = Bounds((l,) + b.lbs, b.ubs)
        self._facts(st, vn)
        if b.is_exact():
            self._symfact(st, b.exact_val(), l, "lb")

    def _symfact(self, st, p, bound, side):
        """variable with exact value p got a new bound: if p is a bare symbol, record on the symbol"""
        if len(p.t) == 1:
            (m, c), = p.t.items()
            if len(m) == 1 and m[0][1] == 1 and c == 1:
                s = m[0][0]
                if s in bound.symbols():
                    return
                (st.sym_ub if side == "ub" else st.sym_lb).setdefault(s, []).insert(0, bound)
                self._derive(st, s)

    def _derive(self, st, s):
        for l in st.sym_lb.get(s, []):
            for u in st.sym_ub.get(s, []):
                self._polyfact(st, u - l)

    def _facts(self, st, vn):
        b = st.get(vn)
        for l in b.lbs:
            for u in b.ubs:
                self._polyfact(st, u - l)

    def _polyfact(self, st, d):
        """d >= 0 known; if d = k*s + c (one symbol, linear) record numeric bound on s"""
        syms = d.symbols()
        if len(syms) != 1:
            if syms and not any(x.startswith("#") for x in syms) and d not in st.facts and len(st.facts) < 12:
                st.facts.append(d)
            # integer product rule:  m - c >= 0, c >= 1, m = s1*s2*.. (coefficient 1): if all factors but one are
            # known >= 0 then the remaining factor is >= 1 (and then every factor is)
            if len(d.t) == 2 and () in d.t and d.t[()] <= -1:
                (m, c), = [(m, c) for m, c in d.t.items() if m != ()]
                if c == 1 and all(e == 1 for _, e in m):
                    names = [n for n, _ in m]

                    def nonneg_sym(n):
                        return any(x.is_const() and x.cval() >= 0 for x in st.sym_lb.get(n, []))
                    for _pass in range(2):
                        for n in names:
                            # product >= 1: a factor that is >= 0 is >= 1; so is a factor whose cofactors are all >= 0
                            if nonneg_sym(n) or all(nonneg_sym(o) for o in names if o != n):
                                cur = [x.cval() for x in st.sym_lb.get(n, []) if x.is_const()]
                                if not cur or max(cur) < 1:
                                    st.sym_lb.setdefault(n, []).insert(0, Poly.const(1))
            return
        s = next(iter(syms))
        sp = d.split_linear(s)
        if sp is None:
            return
        A, B = sp
        if not (A.is_const() and B.is_const()) or A.cval() == 0:
            return
        v = -B.cval() / A.cval()
        if A.cval() > 0:
            cur = [x for x in st.sym_lb.get(s, []) if x.is_const()]
            if not cur or max(x.cval() for x in cur) < v:
                st.sym_lb.setdefault(s, []).insert(0, Poly.const(v if v.denominator == 1 else (v.numerator // v.denominator) + 1))
        else:
            cur = [x for x in st.sym_ub.get(s, []) if x.is_const()]
            if not cur or min(x.cval() for x in cur) > v:
                st.sym_ub.setdefault(s, []).insert(0, Poly.const(v.numerator // v.denominator))

    def refine(self, c, st, truth):
        c = strip(c)
        k = c.get("kind")
        if k == "UnaryOperator" and c.get("opcode") == "!":
            return self.refine(c["inner"][0], st, not truth)
        if k == "BinaryOperator":
            op = c["opcode"]
            a, b = c["inner"]
            if op in ("&&", "||"):
                conj = (op == "&&") == truth
                if conj:      # both must be `truth`
                    s1 = self.refine(a, st, truth)
                    return self.refine(b, s1, truth)
                # disjunction of outcomes
                s1 = self.refine(a, st.copy(), truth)
                s2 = self.refine(b, self.refine(a, st.copy(), not truth), truth)
                return self.join(s1, s2)
            if op in ("<", "<=", ">", ">=", "==", "!="):
                if not (is_int_type(strip(a)["type"]["qualType"]) and is_int_type(strip(b)["type"]["qualType"])):
                    if truth and op in ("<", "<=", ">", ">="):
                        self.refine_double(a, b, op, st)
                    return st
                if not truth:
                    op = {"<": ">=", "<=": ">", ">": "<=", ">=": "<", "==": "!=", "!=": "=="}[op]
                q = self.quiet
                self.quiet += 1
                ba, bb = self.ev(a, st), self.ev(b, st)
                self.quiet = q
                va, ca = self.lin(a)
                vb, cb = self.lin(b)
                if op in (">", ">="):
                    a, b, ba, bb, va, ca, vb, cb = b, a, bb, ba, vb, cb, va, ca
                    op = {">": "<", ">=": "<="}[op]
                if op in ("<", "<="):
                    d = 1 if op == "<" else 0
                    if va:
                        for u in bb.ubs:
                            self.add_ub(st, va, u - d - ca)
                    if vb:
                        for l in ba.lbs:
                            self.add_lb(st, vb, l + d - cb)
                    # contradiction?
                    if any(self.prover.nonneg(l - u - (1 - d), st) for l in ba.lbs for u in bb.ubs):
                        st.dead = True
                elif op == "==":
                    if va:
                        for u in bb.ubs:
                            self.add_ub(st, va, u - ca)
                        for l in bb.lbs:
                            self.add_lb(st, va, l - ca)
                    if vb:
                        for u in ba.ubs:
                            self.add_ub(st, vb, u - cb)
                        for l in ba.lbs:
                            self.add_lb(st, vb, l - cb)
                elif op == "!=":
                    for (v, cc, me, other) in ((va, ca, ba, bb), (vb, cb, bb, ba)):
                        if v and other.is_exact():
                            x = other.exact_val() - cc
                            cur = st.get(v)
                            nl = tuple(l + 1 if l == x else l for l in cur.lbs)
                            nu = tuple(u - 1 if u == x else u for u in cur.ubs)
                            if nl != cur.lbs or nu != cur.ubs:
                                st.vars[v] = Bounds(nl, nu)
                                self._facts(st, v)
                return st
        if k == "DeclRefExpr" or k == "ArraySubscriptExpr":
            return st
        return st

    def refine_double(self, a, b, op, st):
        """a true comparison between a double variable and an integer-valued expression bounds the variable
        (and excludes NaN).  Only the true branch is used: a false comparison says nothing about NaN."""
        def dvar(x):
            x = strip(x)
            while x.get("kind") in ("ImplicitCastExpr", "ParenExpr"):
                x = strip(x["inner"][0])
            if x.get("kind") == "DeclRefExpr" and x["type"]["qualType"].replace("const ", "") in ("double", "float"):
                return x["referencedDecl"]["name"]
            return None

        def ival(x):
            x = strip(x)
            while x.get("kind") in ("ParenExpr",):
                x = strip(x["inner"][0])
            if x.get("kind") in ("ImplicitCastExpr", "CStyleCastExpr") and x.get("castKind") == "IntegralToFloating":
                q = self.quiet
                self.quiet += 1
                r = self.ev(x["inner"][0], st)
                self.quiet = q
                return r
            if x.get("kind") == "IntegerLiteral":
                return Bounds.exact(int(x["value"]))
            if x.get("kind") == "FloatingLiteral":
                v = float(x["value"])
                if v == int(v) and abs(v) < 2**62:
                    return Bounds.exact(int(v))
            return None
        for x, y, o in ((a, b, op), (b, a, {"<": ">", "<=": ">=", ">": "<", ">=": "<="}[op])):
            v = dvar(x)
            r = ival(y)
            if v is None or r is None:
                continue
            lo, hi, _ = st.dbl.get(v, ((), (), False))
            if o in (">", ">="):
                lo = tuple(r.lbs) + tuple(lo)
            else:
                nonneg = any(l.is_const() and l.cval() >= 0 for l in lo)
                d = 1 if (o == "<" and nonneg) else 0
                hi = tuple(u - d for u in r.ubs) + tuple(hi)
                if nonneg:
                    # 0 <= v < y (or <= y): the integer side is >= 1 (or >= 0)
                    yy = strip(y)
                    while yy.get("kind") in ("ImplicitCastExpr", "CStyleCastExpr", "ParenExpr"):
                        yy = strip(yy["inner"][0])
                    vn, cc = self.lin(yy)
                    if vn:
                        self.add_lb(st, vn, _p((1 if o == "<" else 0) - cc))
            st.dbl[v] = (lo[:4], hi[:4], False)

    # ---- statements -----------------------------------------------------
    def exec(self, s, st):
        if st.dead:
            return st
        k = s.get("kind")
        if k is None or k == "NullStmt":
            return st
        if k == "CompoundStmt":
            for c in s.get("inner", []):
                st = self.exec(c, st)
                if st.dead:
                    break
            return st
        if k == "DeclStmt":
            for d in s.get("inner", []):
                if d.get("kind") != "VarDecl":
                    continue
                n, t = d["name"], d["type"]["qualType"]
                m = re.match(r"^(.*?)\[(\d+)\]$", t)
                if m:
                    self.local_arrays[n] = Poly.const(int(m.group(2)))
                    if d.get("inner") and is_int_type(m.group(1).replace("static ", "").strip()):
                        # integer table with a literal initialiser: its elements lie between the smallest and the largest literal
                        vals = _init_ints(d)
                        if vals is not None:
                            if len(vals) < int(m.group(2)):
                                vals = vals + [0]          # remaining elements are zero-initialised
                            st.vars[n + "[*]"] = Bounds((Poly.const(min(vals)),), (Poly.const(max(vals)),))
                    continue
                init = [c for c in d.get("inner", []) if c.get("kind")]
                if init:
                    val = self.ev(init[0], st)
                    if is_int_type(t):
                        st.vars[n] = val
                    self._malloc(n, init[0], st)
                elif is_int_type(t):
                    st.vars[n] = TOP
            return st
        if k == "IfStmt":
            inner = s["inner"]
            cond, then = inner[0], inner[1]
            els = inner[2] if len(inner) > 2 else None
            self.ev(cond, st)
            s1 = self.refine(cond, st.copy(), True)
            s2 = self.refine(cond, st.copy(), False)
            s1 = self.exec(then, s1)
            if els is not None:
                s2 = self.exec(els, s2)
            r = self.join(s1, s2)
            return r if r is not None else st
        if k == "ReturnStmt":
            for c in s.get("inner", []):
                self.ev(c, st)
            st = st.copy()
            st.dead = True
            return st
        if k == "BreakStmt":
            self.ctx[-1]["breaks"].append(st.copy())
            st = st.copy()
            st.dead = True
            return st
        if k == "ContinueStmt":
            self.ctx[-1]["conts"].append(st.copy())
            st = st.copy()
            st.dead = True
            return st
        if k == "ForStmt":
            init, _cv, cond, inc, body = s["inner"]
            if init.get("kind"):
                st = self.exec(init, st) if init["kind"] in ("DeclStmt",) else (self.ev(init, st), st)[1]
            return self.loop(s, cond if cond.get("kind") else None, inc if inc.get("kind") else None, body, st)
        if k == "WhileStmt":
            cond, body = s["inner"]
            return self.loop(s, cond, None, body, st)
        # expression statement
        val = self.ev(s, st)
        # malloc assigned through plain assignment
        e = strip(s)
        if e.get("kind") == "BinaryOperator" and e.get("opcode") == "=":
            tgt = strip(e["inner"][0])
            if tgt.get("kind") == "DeclRefExpr":
                self._malloc(tgt["referencedDecl"]["name"], e["inner"][1], st)
        return st

    def _malloc(self, name, rhs, st):
        r = rhs
        while r.get("kind") in ("ImplicitCastExpr", "CStyleCastExpr", "ParenExpr"):
            r = r["inner"][0]
        if r.get("kind") != "CallExpr":
            return
        cal = strip(r["inner"][0])
        if cal.get("referencedDecl", {}).get("name") != "malloc":
            return
        # size = count * sizeof(..): take the non-sizeof factors
        q = self.quiet
        self.quiet += 1
        cnt = self._count(r["inner"][1], st)
        self.quiet = q
        if cnt is not None:
            self.local_arrays[name] = cnt

    def _count(self, e, st):
        e2 = e
        while e2.get("kind") in ("ImplicitCastExpr", "ParenExpr"):
            e2 = e2["inner"][0]
        if e2.get("kind") == "UnaryExprOrTypeTraitExpr":
            return Poly.const(1)
        if e2.get("kind") == "BinaryOperator" and e2["opcode"] == "*":
            a = self._count(e2["inner"][0], st)
            b = self._count(e2["inner"][1], st)
            if a is not None and b is not None:
                return a * b
            return None
        b = self.ev(e2, st)
        if b.is_exact():
            return b.exact_val()
        return None

    # ---- loops ----------------------------------------------------------
    def modified(self, node, acc=None):
        acc = set() if acc is None else acc
        k = node.get("kind")
        tgt = None
        if k == "BinaryOperator" and node.get("opcode") == "=":
            tgt = node["inner"][0]
        elif k == "CompoundAssignOperator":
            tgt = node["inner"][0]
        elif k == "UnaryOperator" and node.get("opcode") in ("++", "--"):
            tgt = node["inner"][0]
        if tgt is not None:
            vn = self.varname(tgt)
            if vn:
                acc.add(vn)
            else:
                b = strip(tgt)
                if b.get("kind") in ("ArraySubscriptExpr",):
                    a = self.base_array(b["inner"][0])
                    if a:
                        acc.add(a + "[*]")
        if k == "CallExpr":
            for a in node["inner"][1:]:
                n = self.base_array(a)
                if n and n in self.local_arrays:
                    acc.add(n + ("[0]" if self.local_arrays[n] == Poly.const(1) else "[*]"))
        for c in node.get("inner", []):
            if c.get("kind"):
                self.modified(c, acc)
        return acc

    def canonical(self, cond, inc, body, st):
        """(var, direction, bound Bounds) for counted loops"""
        if cond is None or inc is None:
            return None
        i = strip(inc)
        if not (i.get("kind") == "UnaryOperator" and i.get("opcode") in ("++", "--")):
            return None
        v = self.varname(i["inner"][0])
        if not v or v in self.modified(body):
            return None
        c = strip(cond)
        if c.get("kind") != "BinaryOperator" or c["opcode"] not in ("<", "<=", ">", ">="):
            return None
        if self.varname(c["inner"][0]) != v:
            return None
        up = i["opcode"] == "++"
        if up != (c["opcode"] in ("<", "<=")):
            return None
        # bound expression must not involve modified variables
        mods = self.modified(body) | {v}
        if self._mentions(c["inner"][1], mods):
            return None
        return v, up, c

    def _mentions(self, e, names):
        vn = self.varname(e)
        if vn and vn in names:
            return True
        if e.get("kind") == "DeclRefExpr" and e["referencedDecl"]["name"] in names:
            return True
        return any(self._mentions(c, names) for c in e.get("inner", []) if c.get("kind"))

    def loop(self, node, cond, inc, body, st):
        can = self.canonical(cond, inc, body, st)
        mods = self.modified(body)
        if inc is not None:
            mods |= self.modified(inc)
        if cond is not None:
            mods |= self.modified(cond)
        z = None
        entry = st
        if can:
            v, up, c = can
            mods.discard(v)
            z = f"#{v}{node['_line']}"
            if z not in self.order:
                self._newsym(z)
            init = entry.get(v)
        dig = (node["_line"], self._digest(entry, mods))
        cached = self.inv_cache.get(dig)
        # candidate invariants
        cands = {m: {"lb": [], "ub": []} for m in mods}
        for m in mods:
            b = entry.get(m)
            cands[m]["lb"] += list(b.lbs)
            cands[m]["ub"] += list(b.ubs)
        if cached is not None:
            cands = {m: {"lb": list(cached[m]["lb"]), "ub": list(cached[m]["ub"])} for m in mods}
        self.quiet += 1
        probe = entry.copy()
        for m in mods:
            probe.vars[m] = TOP
        if can:
            probe.vars[v] = Bounds.exact(Poly.sym(z))
            probe.sym_lb[z] = list(init.lbs) if up else []
            probe.sym_ub[z] = list(init.ubs) if not up else []
        if cached is None:
            self._guard_cands(node, mods, probe, cands, z, entry, can)
        def entry_filter():
            for m in mods:
                eb = entry.get(m)
                uninit = m not in entry.vars and (m.endswith("[*]") or m.endswith("[0]"))
                if uninit:
                    continue
                for side in ("lb", "ub"):
                    cands[m][side] = [p for p in dict.fromkeys(cands[m][side])
                                      if self._holds(eb, entry, p, side, z, can, entry_phase=True)]
        if cached is None:
            entry_filter()
        saved = (self.collect, self.collect_mods)
        for _it in range(0 if cached is not None else 3):
            head = entry.copy()
            for m in mods:
                head.vars[m] = Bounds(cands[m]["lb"], cands[m]["ub"])
            self.collect, self.collect_mods = {}, set(mods)
            self._body(head, can, z, cond, inc, body, entry)
            got = self.collect
            self.collect, self.collect_mods = None, set()
            new = False
            for vn, lst in got.items():
                for val, stt in lst:
                    for u in val.ubs:
                        for q in [u] + self.close_up(u, stt):
                            if q not in cands[vn]["ub"]:
                                cands[vn]["ub"].append(q); new = True
                    for l in val.lbs:
                        for q in self.close_lo(l, stt):
                            if q not in cands[vn]["lb"]:
                                cands[vn]["lb"].append(q); new = True
            if not new:
                break
            entry_filter()
        self.collect, self.collect_mods = saved
        for m in mods:
            for side in ("lb", "ub"):
                cands[m][side] = cands[m][side][:30]
        self.quiet -= 1
        if getattr(self, 'dbgline', None) == node['_line']:
            print('CANDS', {m: cands[m] for m in mods if 'idx' in m})
        # Houdini
        for _ in range(0 if cached is not None else 8):
            head = entry.copy()
            for m in mods:
                head.vars[m] = Bounds(cands[m]["lb"], cands[m]["ub"])
            self.quiet += 1
            end, _brk = self._body(head, can, z, cond, inc, body, entry)
            self.quiet -= 1
            changed = False
            for m in mods:
                eb = entry.get(m)
                uninit = m not in entry.vars and (m.endswith("[*]") or m.endswith("[0]"))
                for side in ("lb", "ub"):
                    keep = []
                    for p in cands[m][side]:
                        ok_entry = uninit or self._holds(eb, entry, p, side, z, can, entry_phase=True)
                        ok_back = end is None or end.dead or self._holds(end.get(m), end, p, side, z, can, entry_phase=False)
                        if getattr(self, 'dbgline', None) == node['_line'] and 'idxup' in m:
                            print('   check', m, side, p, ok_entry, ok_back, None if end is None else end.get(m))
                        if ok_entry and ok_back:
                            keep.append(p)
                        else:
                            changed = True
                    cands[m][side] = keep
            if not changed:
                break
        self.inv_cache[dig] = {m: {"lb": list(cands[m]["lb"]), "ub": list(cands[m]["ub"])} for m in mods}
        head = entry.copy()
        for m in mods:
            head.vars[m] = Bounds(cands[m]["lb"], cands[m]["ub"])
        end, brks = self._body(head, can, z, cond, inc, body, entry)
        # state after loop
        after = head.copy()
        if can:
            v, up, c = can
            q = self.quiet
            self.quiet += 1
            lim = self.ev(c["inner"][1], entry)
            self.quiet = q
            after.vars[v] = Bounds.exact(Poly.sym(z))
            op = strip(c)["opcode"]
            if up:
                after.sym_lb[z] = list(init.lbs)
                ubs = []
                for u in lim.ubs:
                    tgt = u if op == "<" else u + 1
                    if any(self.prover.nonneg(tgt - l, entry) for l in init.ubs or init.lbs):
                        ubs.append(tgt)
                after.sym_ub[z] = ubs
            else:
                after.sym_ub[z] = list(init.ubs)
                lbs = []
                for l in lim.lbs:
                    tgt = l if op == ">" else l - 1
                    if any(self.prover.nonneg(u - tgt, entry) for u in init.lbs or init.ubs):
                        lbs.append(tgt)
                after.sym_lb[z] = lbs
        elif cond is not None:
            after = self.refine(cond, after, False)
        for b in brks:
            after = self.join(after, b) if not after.dead else b
        return after

    def _digest(self, st, mods):
        return (tuple(sorted((k, v.lbs, v.ubs) for k, v in st.vars.items())),
                tuple(sorted((k, tuple(v)) for k, v in st.sym_lb.items())),
                tuple(sorted((k, tuple(v)) for k, v in st.sym_ub.items())),
                tuple(st.facts))

    def _holds(self, b, st, p, side, z, can, entry_phase):
        """does bound candidate p (may mention loop symbol z) hold for Bounds b in state st?
        at entry: z = init; at back edge: candidate re-expressed for z+1 (or z-1)"""
        q = p
        if z and z in p.symbols():
            v, up, c = can
            if entry_phase:
                init = st.get(v)
                if not init.is_exact():
                    return False
                q = p.subst(z, init.exact_val())
            else:
                q = p.subst(z, Poly.sym(z) + (1 if up else -1))
        if side == "ub":
            return any(self.prover.nonneg(q - u, st) for u in b.ubs)
        return any(self.prover.nonneg(l - q, st) for l in b.lbs)

    def _body(self, head, can, z, cond, inc, body, entry):
        st = head.copy()
        if can:
            v, up, c = can
            init = entry.get(v)
            st.vars[v] = Bounds.exact(Poly.sym(z))
            q = self.quiet
            self.quiet += 1
            lim = self.ev(c["inner"][1], entry)
            self.quiet = q
            op = strip(c)["opcode"]
            if up:
                st.sym_lb[z] = list(init.lbs)
                st.sym_ub[z] = [u - (1 if op == "<" else 0) for u in lim.ubs]
            else:
                st.sym_ub[z] = list(init.ubs)
                st.sym_lb[z] = [l + (1 if op == ">" else 0) for l in lim.lbs]
            self._derive(st, z)
            self.ev(cond, st)
        elif cond is not None:
            self.ev(cond, st)
            st = self.refine(cond, st, True)
        self.ctx.append({"breaks": [], "conts": []})
        end = self.exec(body, st)
        c = self.ctx.pop()
        for cs in c["conts"]:
            end = self.join(end, cs) if not end.dead else cs
        if inc is not None and not end.dead:
            self.ev(inc, end)
        return end, c["breaks"]

    def _guard_cands(self, node, mods, probe, cands, z, entry, can):
        def visit(n):
            k = n.get("kind")
            if k == "BinaryOperator" and n.get("opcode") in ("<", "<=", ">", ">=", "==", "!="):
                a, b = n["inner"]
                for x, y in ((a, b), (b, a)):
                    vn, cc = self.lin(x)
                    if vn in mods and not self._mentions(y, mods):
                        yb = self.ev(y, probe)
                        for p in list(yb.lbs) + list(yb.ubs):
                            for d in (-1, 0, 1):
                                cands[vn]["ub"].append(p - cc + d)
                                cands[vn]["lb"].append(p - cc + d)
            if k == "BinaryOperator" and n.get("opcode") == "=":
                vn = self.varname(n["inner"][0])
                if vn in mods:
                    rb = self.ev(n["inner"][1], probe)
                    for u in rb.ubs:
                        cands[vn]["ub"].append(u)
                        cands[vn]["ub"] += self.close_up(u, probe)
                    for l in rb.lbs:
                        cands[vn]["lb"] += self.close_lo(l, probe)
            if k == "CallExpr":
                cal = strip(n["inner"][0])
                nm = cal.get("referencedDecl", {}).get("name") if cal.get("kind") == "DeclRefExpr" else None
                sm = self.pick_summary(nm, n["inner"][1:], probe) if nm in self.summ else None
                if sm is not None:
                    sub = {}
                    for (pn, pt), a in zip(sm.params, n["inner"][1:]):
                        if is_int_type(pt):
                            sub[pn] = self.ev(a, probe)
                    for (pn, pt), a in zip(sm.params, n["inner"][1:]):
                        if pt.endswith("*") and pn in sm.stores:
                            arr = self.base_array(a)
                            if arr in self.local_arrays:
                                key = arr + ("[0]" if self.local_arrays[arr] == Poly.const(1) else "[*]")
                                if key in mods:
                                    for side, lst in (("lb", sm.stores[pn].lbs), ("ub", sm.stores[pn].ubs)):
                                        for q in lst:
                                            ok = all(s_ in sub and sub[s_].is_exact() for s_ in q.symbols())
                                            if ok:
                                                for s_ in list(q.symbols()):
                                                    q = q.subst(s_, sub[s_].exact_val())
                                                cands[key][side].append(q)
            if k == "UnaryOperator" and n.get("opcode") == "++" and z:
                vn = self.varname(n["inner"][0])
                if vn in mods:
                    v, up, c = can
                    eb, ib = entry.get(vn), entry.get(v)
                    if eb.is_exact() and ib.is_exact() and up:
                        cands[vn]["ub"].append(Poly.sym(z) + eb.exact_val() - ib.exact_val())
            for c in n.get("inner", []):
                if c.get("kind"):
                    visit(c)
        visit(node)
        for m in mods:
            for side in ("lb", "ub"):
                cands[m][side] = list(dict.fromkeys(cands[m][side]))[:24]
