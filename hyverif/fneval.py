"""Guarded closed forms of plain Python functions: a syntax-directed evaluation of straight-line code with `if`
forks into a list of (path conditions, returned Expr).  Used by the formula rules (C03, C04, C10, C20)."""
import ast

from .formula import ExprBuilder, Undecided
from .pyfront import dotted


class Path:
    def __init__(self, conds, value, line):
        self.conds, self.value, self.line = conds, value, line      # conds: list of (Expr, truth)


def _is_none_test(test, env):
    """`x is None` / `x is not None` for a local whose value on this path is the literal None or a tuple / number: decided"""
    if isinstance(test, ast.Compare) and len(test.ops) == 1 and isinstance(test.ops[0], (ast.Is, ast.IsNot)) and \
            isinstance(test.left, ast.Name) and isinstance(test.comparators[0], ast.Constant) and test.comparators[0].value is None:
        v = env.get(test.left.id)
        if v is None:
            return None
        isnone = None
        if v == ('sym', 'None'):
            isnone = True
        elif isinstance(v, tuple) and v and v[0] in ('tuple', 'num'):
            isnone = False
        if isnone is None:
            return None
        return isnone if isinstance(test.ops[0], ast.Is) else not isnone
    return None


class FnEval:
    def __init__(self, resolve_attr=None, resolve_call=None, ignore_calls=("warnings.warn", "has_c_module", "print")):
        self.builder = ExprBuilder(resolve_attr, resolve_call)
        self.ignore = set(ignore_calls)
        self.paths = []
        self.maxpaths = 400

    def run(self, fdef, env):
        self.paths = []
        self.walk(fdef.body, dict(env), [])
        return self.paths

    def b(self, e, env):
        return self.builder.build(e, env)

    def bind(self, t, v, env):
        if isinstance(t, ast.Name):
            env[t.id] = v
        elif isinstance(t, (ast.Tuple, ast.List)):
            if v[0] == 'tuple' and len(v[1]) == len(t.elts):
                for a, x in zip(t.elts, v[1]):
                    self.bind(a, x, env)
            else:
                for i, a in enumerate(t.elts):
                    self.bind(a, ('call', f'getitem[{i}]', (v,)), env)
        elif isinstance(t, ast.Subscript):
            # d[key] = v on a dict / masked store: record as functional update
            base = dotted(t.value)
            if base and isinstance(t.value, ast.Name):
                old = env.get(base, ('sym', base))
                try:
                    key = self.b(t.slice, env)
                except Undecided:
                    key = ('sym', ast.unparse(t.slice))
                env[base] = ('call', 'setitem', (old, key, v))
        elif isinstance(t, ast.Attribute):
            d = dotted(t)
            if d:
                env[d] = v

    def walk(self, stmts, env, conds):
        if len(self.paths) > self.maxpaths:
            raise Undecided("too many paths")
        for i, s in enumerate(stmts):
            if isinstance(s, ast.Expr):
                if isinstance(s.value, ast.Constant):
                    continue
                if isinstance(s.value, ast.Call) and dotted(s.value.func) in self.ignore:
                    continue
                continue
            if isinstance(s, (ast.Import, ast.ImportFrom, ast.Pass)):
                continue
            if isinstance(s, ast.Assign):
                try:
                    v = self.b(s.value, env)
                except Undecided as ex:
                    v = ('sym', f"?{ast.unparse(s.value)[:40]}")
                for t in s.targets:
                    self.bind(t, v, env)
                continue
            if isinstance(s, ast.AugAssign) and isinstance(s.target, ast.Name):
                op = {ast.Add: 'add', ast.Sub: 'sub', ast.Mult: 'mul', ast.Div: 'div'}.get(type(s.op))
                if op is None or s.target.id not in env:
                    raise Undecided("augmented assignment")
                env[s.target.id] = (op, env[s.target.id], self.b(s.value, env))
                continue
            if isinstance(s, ast.If):
                try:
                    test = self.b(s.test, env)
                except Undecided:
                    test = ('sym', f"?{ast.unparse(s.test)[:40]}")
                rest = stmts[i + 1:]
                known = _is_none_test(s.test, env)
                if known is not True:
                    self.walk(list(s.orelse) + rest, dict(env), conds + ([] if known is False else [(test, False)])) if known is False else None
                if known is not False:
                    self.walk(list(s.body) + rest, dict(env), conds + ([] if known is True else [(test, True)]))
                if known is None:
                    self.walk(list(s.orelse) + rest, dict(env), conds + [(test, False)])
                return
            if isinstance(s, ast.Return):
                if s.value is None:
                    v = ('sym', 'None')
                else:
                    try:
                        v = self.b(s.value, env)
                    except Undecided as ex:
                        v = ('sym', f"?{ast.unparse(s.value)[:40]}")
                self.paths.append(Path(conds, v, s.lineno))
                return
            if isinstance(s, ast.Raise):
                self.paths.append(Path(conds, ('raise',), s.lineno))
                return
            if isinstance(s, (ast.For, ast.While, ast.With, ast.Try)):
                # loops are outside the closed-form vocabulary: names they assign become opaque
                for n in ast.walk(s):
                    if isinstance(n, ast.Name) and isinstance(n.ctx, ast.Store):
                        env[n.id] = ('sym', f"?loop:{n.id}@{s.lineno}")
                continue
            raise Undecided(f"statement {type(s).__name__}")
        self.paths.append(Path(conds, ('sym', 'None'), stmts[-1].lineno if stmts else 0))
