"""Report / evidence / known-findings plumbing shared by every check (engine E9).

A check builds a Report, records one entry per rule instance and calls
finish(), which prints the verdict lines, writes evidence/<id>.json and the
replay files and returns the exit code (0 held / 1 violation / 2 analysis
error).  Nothing here looks at hydrodiy; it is bookkeeping only.
"""
import hashlib
import json
import os
import re
import sys
import time

VERIF = os.path.dirname(os.path.dirname(os.path.abspath(__file__)))
DEFAULT_REPO = "/repo"


class AnalysisError(Exception):
    """anchor vanished / parse failure / floor not met: exit 2, never a VIOLATION"""


def norm(s):
    """normalise a construct text for keys: collapse blanks"""
    return re.sub(r"\s+", "", str(s))


def mkkey(rule, file, func, construct):
    return "|".join([rule, os.path.basename(file or "-"), func or "-", norm(construct)])


class Entry:
    __slots__ = ("verdict", "rule", "file", "func", "construct", "detail", "line", "key", "firm")

    def __init__(self, verdict, rule, file, func, construct, detail="", line=None, firm=False):
        self.verdict, self.rule, self.file, self.func = verdict, rule, file, func
        self.construct, self.detail, self.line = construct, detail, line
        self.firm = firm          # the verdict rests on a construct that was found (not on a shape that failed to match)
        self.key = mkkey(rule, file, func, construct)

    def loc(self):
        f = self.file or "-"
        return f"{f}:{self.line}" if self.line else f

    def asdict(self):
        return {"verdict": self.verdict, "rule": self.rule, "where": self.loc(),
                "function": self.func, "construct": str(self.construct),
                "detail": str(self.detail), "key": self.key}


class Report:
    def __init__(self, pid, tier="quick", repo=DEFAULT_REPO, seed=0):
        self.pid, self.tier, self.repo, self.seed = pid, tier, repo, seed
        self.entries = []
        self.errors = []
        self.units = []           # what was analysed (files, functions ...)
        self.assumptions = []
        self.notes = []
        self.rules = {}           # rule id -> one-line description
        self.floors = []          # (name, count, minimum)
        self.extra = {}
        self.t0 = time.time()

    # -- recording ---------------------------------------------------------
    def rule(self, rid, text):
        self.rules[rid] = text

    def add(self, verdict, rule, file, func, construct, detail="", line=None, firm=False):
        e = Entry(verdict, rule, file, func, construct, detail, line, firm)
        self.entries.append(e)
        return e

    def proved(self, rule, file, func, construct, detail="", line=None):
        return self.add("PROVED", rule, file, func, construct, detail, line)

    def violation(self, rule, file, func, construct, detail="", line=None, firm=False):
        return self.add("VIOLATION", rule, file, func, construct, detail, line, firm)

    def assumed(self, rule, file, func, construct, detail="", line=None):
        return self.add("ASSUMED", rule, file, func, construct, detail, line)

    def undecided(self, rule, file, func, construct, detail="", line=None):
        return self.add("UNDECIDED", rule, file, func, construct, detail, line)

    def check(self, ok, rule, file, func, construct, detail="", line=None, firm=False):
        if ok:
            return self.proved(rule, file, func, construct, detail, line)
        return self.violation(rule, file, func, construct, detail, line, firm)

    def error(self, msg):
        self.errors.append(str(msg))

    def floor(self, name, count, minimum):
        """a rule that matches fewer instances than confirmed by hand passes vacuously: exit 2"""
        self.floors.append((name, count, minimum))
        if count < minimum:
            self.error(f"floor not met: {name}: {count} < {minimum} (anchor moved or vanished)")

    def unit(self, text):
        self.units.append(text)

    def assume(self, text):
        if text not in self.assumptions:
            self.assumptions.append(text)

    # -- finishing ---------------------------------------------------------
    def _restructure_gate(self):
        """violations of shape-dependent rules inside a function that was restructured since the rules were anchored become UNDECIDED"""
        try:
            from . import shapes
            rs = shapes.restructured(self.repo)
        except Exception as ex:          # the gate only ever downgrades: a failure leaves the verdicts as they are
            self.notes.append(f"restructure gate not applied: {type(ex).__name__}: {ex}")
            return
        self.extra["restructured_files"] = rs
        alld = shapes.all_distances(self.repo)
        if not rs and not any(v >= shapes.THRESHOLD_RANGE for v in alld.values()):
            return
        for e in self.entries:
            if e.verdict != "VIOLATION" or shapes.shape_free(e.rule) or e.firm:
                continue
            fn = (e.func or "")
            d = rs.get(e.file or "", 0)
            if e.rule.startswith("R05."):
                # range / contract analysis: own threshold; a call-site contract also depends on the kernel file named in its text
                files = {e.file or ""} | set(re.findall(r"\b(\w+/c_\w+\.c)\b", (e.detail or "") + " " + (e.construct or "")))
                dd = max([alld.get(f_, 0) for f_ in files] + [0])
                d = dd if dd >= shapes.THRESHOLD_RANGE else 0
            if d:
                e.verdict = "UNDECIDED"
                e.detail = (f"[{e.file} was restructured since the rules were anchored (structural distance {d} >= {shapes.THRESHOLD}): the clause could not be "
                            f"re-established on the new shape of {fn or 'the code'}; re-anchor the rule] " + (e.detail or ""))[:600]

    def finish(self, explanation, write=True):
        self._restructure_gate()
        known = load_known()
        openk = {k["key"]: k for k in known if k.get("status") == "open" and k.get("property") == self.pid}
        viol, kf = [], []
        seen = set()
        for e in self.entries:
            if e.verdict != "VIOLATION":
                continue
            if e.key in seen:
                continue
            seen.add(e.key)
            if e.key in openk:
                kf.append((e, openk[e.key]))
            else:
                viol.append(e)
        # dedupe all entries by key+verdict for counting
        uniq = {}
        for e in self.entries:
            uniq.setdefault((e.key, e.verdict), e)
        ents = list(uniq.values())
        counts = {}
        for e in ents:
            counts[e.verdict] = counts.get(e.verdict, 0) + 1
        nobl = len(ents)
        ndis = counts.get("PROVED", 0) + counts.get("ASSUMED", 0)
        out = []
        out.append(f"== {self.pid} tier={self.tier} repo={self.repo}")
        byrule = {}
        for e in ents:
            d = byrule.setdefault(e.rule, {})
            d[e.verdict] = d.get(e.verdict, 0) + 1
        for r in sorted(byrule):
            desc = self.rules.get(r, "")
            out.append(f"   {r:<10} " + " ".join(f"{k}={v}" for k, v in sorted(byrule[r].items())) + (f"   -- {desc}" if desc else ""))
        for e in ents:
            if e.verdict in ("ASSUMED", "UNDECIDED"):
                out.append(f"   {e.verdict}: {e.rule} {e.loc()} {e.func or ''} `{e.construct}` {e.detail}")
        for e, k in kf:
            out.append(f"KNOWN-FINDING: property={self.pid} {e.rule} {e.loc()} {e.func or ''} `{e.construct}`: {k.get('what', e.detail)}")
        # an obligation the analysis could not decide is a silent pass in waiting: only the ones confirmed by reading
        # (undecided_ok.json, one reason each) are tolerated; any other makes the run fail as analysis-broken (exit 2)
        okund = load_undecided_ok()
        for e in ents:
            if e.verdict == "UNDECIDED" and e.key not in okund.get(self.pid, {}):
                self.errors.append(f"obligation could not be decided (not in the confirmed list): {e.rule} {e.loc()} `{e.construct}` {e.detail}"[:400])
        for msg in self.errors:
            out.append(f"ANALYSIS-ERROR property={self.pid} {msg}")
        rdir = os.path.join(VERIF, "replay", self.pid)
        for e in viol:
            h = hashlib.sha1(e.key.encode()).hexdigest()[:12]
            rp = os.path.join(rdir, h + ".json")
            if write:
                os.makedirs(rdir, exist_ok=True)
                with open(rp, "w") as f:
                    json.dump({"property": self.pid, "repo": self.repo, **e.asdict()}, f, indent=1)
            out.append(f"   violated: {e.rule} {e.loc()} {e.func or ''} `{e.construct}` -- {e.detail}")
            out.append(f"VIOLATION property={self.pid} replay={rp}")
        code = 1 if viol else (2 if self.errors else 0)
        wall = time.time() - self.t0
        out.append(f"== {self.pid}: obligations={nobl} discharged={ndis} violations={len(viol)} known={len(kf)} "
                   f"undecided={counts.get('UNDECIDED', 0)} errors={len(self.errors)} wall={wall:.2f}s exit={code}")
        print("\n".join(out))
        sys.stdout.flush()
        if write:
            samples = [e.asdict() for e in ents if e.verdict == "PROVED"][:6] + \
                      [e.asdict() for e in ents if e.verdict != "PROVED"][:14]
            ev = {
                "property_id": self.pid,
                "tier": self.tier if self.tier in ("quick", "thorough") else "quick",
                "seed": int(self.seed),
                "level": "other",
                "coverage": {
                    "explanation": explanation,
                    "obligations": nobl,
                    "discharged": ndis,
                    "evaluations": max(len(self.entries), 1),
                    "distinct_nontrivial": len({e.key for e in ents}),
                    "rule": "one obligation per rule instance found in the current source tree; distinct = distinct "
                            "(rule, file, function, normalised construct) keys; every instance is non-trivial in the "
                            "sense that its rule can fail on a syntactically valid edit of that construct",
                    "samples": samples,
                    "exhaustive": True,
                    "checker_cmd": f"./hv check {self.pid} --tier {self.tier}",
                    "trusted_base": ["clang -ast-dump=json (C syntax tree)", "python ast module", "hyverif rule tables"],
                    "rules": self.rules,
                    "per_rule": byrule,
                    "units_analysed": self.units,
                    "floors": [{"name": n, "count": c, "minimum": m} for n, c, m in self.floors],
                    "known_findings_reported": [e.key for e, _ in kf],
                    "violations": [e.asdict() for e in viol],
                    "undecided": [e.asdict() for e in ents if e.verdict == "UNDECIDED"],
                    "assumed": [e.asdict() for e in ents if e.verdict == "ASSUMED"],
                    "analysis_errors": self.errors,
                    "notes": self.notes,
                    **self.extra,
                },
                "assumptions": self.assumptions,
                "wall_s": round(wall, 3),
                "violations": len(viol),
            }
            os.makedirs(os.path.join(VERIF, "evidence"), exist_ok=True)
            with open(os.path.join(VERIF, "evidence", self.pid + ".json"), "w") as f:
                json.dump(ev, f, indent=1, default=str)
        return code


def borrow(rep, other_pid, rid, text, select):
    """clauses another property's rules decide about code this property also depends on: that module is run on a scratch
    report and the entries chosen by select(entry) are taken over under rule `rid`"""
    import importlib
    sub = Report(other_pid, rep.tier, rep.repo, rep.seed)
    mod = importlib.import_module(f"hyverif.rules.{other_pid.lower()}")
    mod.run(sub)
    rep.rule(rid, text)
    n = 0
    for e in sub.entries:
        if select(e):
            n += 1
            rep.add(e.verdict, rid, e.file, e.func, f"[{e.rule}] {e.construct}", e.detail, e.line, getattr(e, "firm", False))
    return n


def load_undecided_ok():
    p = os.path.join(VERIF, "undecided_ok.json")
    if not os.path.exists(p):
        return {}
    with open(p) as f:
        d = json.load(f)
    return {pid: {x["key"]: x.get("reason", "") for x in lst} for pid, lst in d.items()}


def load_known():
    p = os.path.join(VERIF, "known_findings.json")
    if not os.path.exists(p):
        return []
    with open(p) as f:
        return json.load(f).get("findings", [])
