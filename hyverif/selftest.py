"""Self-validation of the checkers on scratch copies of the CURRENT tree (DESIGN.md section 8).

The variant catalogue lives on disk under /verif and is applied, one variant per scratch copy, to a
copy of the source files of the repository under analysis (made outside /repo and /verif, removed
straight afterwards).  Nothing of the repository is executed: every variant is decided by the same
static check as the unchanged tree, pointed at the copy.

  seeded/<id>/patch.diff            a property-breaking change confirmed by hand   -> the check must exit 1
                                    and one of the rules recorded in meta.json must be among those that fire
  selftest/unfix/<commit>.diff      the diff of a `fix:` commit, applied in reverse (the defect returns)
                                    -> the check must exit 1 with the rule recorded in known_findings.json
  selftest/benign/<id>/patch.diff   a behaviour-preserving refactor of the anchored code -> the check must exit 0

A variant whose patch does not apply to the tree under analysis is reported as skipped (the tree is
not the one the catalogue was cut for); a variant whose verdict differs from the expected one makes
the thorough run fail as ANALYSIS-ERROR (exit 2): the checker, not the repository, is at fault.
"""
import json
import os
import shutil
import subprocess
import sys
import tempfile
import time
from concurrent.futures import ThreadPoolExecutor

from .core import VERIF, DEFAULT_REPO, load_known

KEEP_EXT = {".py", ".pyx", ".pxd", ".c", ".h", ".toml", ".cfg", ".in", ".md", ".txt", ".yml", ".yaml", ".json"}
MAX_FILE = 2_000_000


def catalogue(pids=None):
    out = []
    sd = os.path.join(VERIF, "seeded")
    if os.path.isdir(sd):
        for name in sorted(os.listdir(sd)):
            mp = os.path.join(sd, name, "meta.json")
            pp = os.path.join(sd, name, "patch.diff")
            if not (os.path.exists(mp) and os.path.exists(pp)):
                continue
            m = json.load(open(mp))
            if not m.get("detected"):
                continue          # recorded as a miss in DESIGN.md; nothing to expect
            out.append({"kind": "seeded", "name": name, "property": m["property"], "patch": pp, "reverse": False,
                        "expect": 1, "rules": m.get("detected_by") or []})
    bd = os.path.join(VERIF, "selftest", "benign")
    if os.path.isdir(bd):
        for name in sorted(os.listdir(bd)):
            mp = os.path.join(bd, name, "meta.json")
            pp = os.path.join(bd, name, "patch.diff")
            if not (os.path.exists(mp) and os.path.exists(pp)):
                continue
            m = json.load(open(mp))
            for pid in m.get("check_with") or [m["property"]]:
                out.append({"kind": "benign", "name": name, "property": pid, "patch": pp, "reverse": False,
                            "expect": 0, "rules": []})
    ud = os.path.join(VERIF, "selftest", "unfix")
    ip = os.path.join(ud, "index.json")
    if os.path.exists(ip):
        for ent in json.load(open(ip)):
            pp = os.path.join(ud, ent["patch"])
            if os.path.exists(pp):
                out.append({"kind": "unfix", "name": ent["name"], "property": ent["property"], "patch": pp,
                            "reverse": True, "expect": 1, "rules": ent.get("rules") or []})
    if pids:
        out = [v for v in out if v["property"] in pids]
    return out


def copy_sources(repo, dst):
    n = 0
    for root, dirs, files in os.walk(repo):
        dirs[:] = [d for d in dirs if d not in (".git", "__pycache__", "build", "dist", ".pytest_cache") and not d.endswith(".egg-info")]
        rel = os.path.relpath(root, repo)
        for fn in files:
            if os.path.splitext(fn)[1].lower() not in KEEP_EXT:
                continue
            sp = os.path.join(root, fn)
            try:
                if os.path.getsize(sp) > MAX_FILE and not fn.endswith((".c", ".py", ".pyx", ".h")):
                    continue
            except OSError:
                continue
            dp = os.path.join(dst, rel)
            os.makedirs(dp, exist_ok=True)
            shutil.copy2(sp, os.path.join(dp, fn))
            n += 1
    return n


def run_variant(v, repo):
    t0 = time.time()
    tmp = tempfile.mkdtemp(prefix="hvst-")
    res = dict(v)
    try:
        copy_sources(repo, tmp)
        cmd = ["patch", "-p1", "-s", "-F3", "--no-backup-if-mismatch", "-d", tmp, "-i", v["patch"]]
        if v["reverse"]:
            cmd.insert(1, "-R")
        else:
            cmd.insert(1, "-N")
        p = subprocess.run(cmd, capture_output=True, text=True)
        if p.returncode != 0:
            res.update(status="skipped", detail="patch does not apply to the tree under analysis: " + (p.stdout + p.stderr).strip()[:200])
            return res
        env = dict(os.environ)
        env["PYTHONPATH"] = VERIF + os.pathsep + env.get("PYTHONPATH", "")
        env["HV_INNER"] = "1"
        c = subprocess.run([sys.executable, "-m", "hyverif.cli", "check", v["property"], "--tier", "quick", "--repo", tmp, "--no-write"],
                           capture_output=True, text=True, cwd=VERIF, env=env)
        lines = c.stdout.splitlines()
        fired = sorted({l.split("violated:")[1].split()[0] for l in lines if "violated:" in l})
        first = [l.strip().replace(tmp, "<copy>")[:300] for l in lines if "violated:" in l or "ANALYSIS-ERROR" in l][:3]
        ok = c.returncode == v["expect"]
        if ok and v["expect"] == 1 and v["rules"]:
            ok = bool(set(fired) & set(v["rules"]))
        res.update(status="ok" if ok else "mismatch", exit=c.returncode, fired=fired, report=first)
        return res
    finally:
        shutil.rmtree(tmp, ignore_errors=True)
        res["wall_s"] = round(time.time() - t0, 2)


def run(pids=None, jobs=16, repo=DEFAULT_REPO, attach=False):
    vs = catalogue(pids)
    if not vs:
        print("selftest: no variants in the catalogue for", pids or "any property")
        return 0
    t0 = time.time()
    heavy = {"C05", "C06", "C08", "C10"}      # checks that run the range analysis use their own process pool
    nj = max(1, min(jobs, 16))
    if any(v["property"] in heavy for v in vs):
        nj = min(nj, 4)
    with ThreadPoolExecutor(nj) as ex:
        results = list(ex.map(lambda v: run_variant(v, repo), vs))
    bad = [r for r in results if r["status"] == "mismatch"]
    skipped = [r for r in results if r["status"] == "skipped"]
    for r in results:
        tag = {"ok": "ok      ", "mismatch": "MISMATCH", "skipped": "skipped "}[r["status"]]
        print(f"   selftest {tag} {r['property']} {r['kind']:<7} {r['name']:<28} expect exit {r['expect']}"
              + (f" got {r.get('exit')} fired={','.join(r.get('fired', []))[:80]}" if r["status"] != "skipped" else " -- " + r.get("detail", "")[:120]))
    print(f"== selftest: variants={len(results)} ok={len(results) - len(bad) - len(skipped)} mismatched={len(bad)} "
          f"skipped={len(skipped)} wall={time.time() - t0:.1f}s")
    if attach and pids:
        for pid in pids:
            ep = os.path.join(VERIF, "evidence", pid + ".json")
            if not os.path.exists(ep):
                continue
            ev = json.load(open(ep))
            mine = [r for r in results if r["property"] == pid]
            ev["coverage"]["selftest"] = {
                "what": "the same static check, pointed at scratch copies of the current tree with one variant applied each",
                "variants": len(mine),
                "seeded_detected": sum(1 for r in mine if r["kind"] == "seeded" and r["status"] == "ok"),
                "reverted_fixes_detected": sum(1 for r in mine if r["kind"] == "unfix" and r["status"] == "ok"),
                "benign_silent": sum(1 for r in mine if r["kind"] == "benign" and r["status"] == "ok"),
                "mismatched": [r["name"] for r in mine if r["status"] == "mismatch"],
                "skipped": [r["name"] for r in mine if r["status"] == "skipped"],
                "results": [{k: r.get(k) for k in ("kind", "name", "expect", "exit", "fired", "status", "report", "wall_s")} for r in mine],
            }
            ev["wall_s"] = round(ev.get("wall_s", 0) + time.time() - t0, 3)
            with open(ep, "w") as f:
                json.dump(ev, f, indent=1, default=str)
    if bad:
        for r in bad:
            print(f"ANALYSIS-ERROR property={r['property']} selftest variant {r['kind']}/{r['name']}: expected exit {r['expect']}"
                  f"{' with one of ' + ','.join(r['rules']) if r['rules'] else ''}, got exit {r.get('exit')} fired={r.get('fired')}")
        return 2
    return 0
