"""Self-validation of the checkers on scratch copies (DESIGN.md section 8).  Placeholder until the
variant catalogue is populated: reports that nothing was run and succeeds."""


def run(pids=None, jobs=16, repo="/repo", attach=False):
    print("selftest: no variants registered yet for", pids or "any property")
    return 0
