"""Kernel driver (engines E1/E2 glue): parse every kernel C file with clang, build the
call graph, run the range analysis bottom-up (parallel, cached by content digest)."""
import glob
import hashlib
import multiprocessing as mp
import os
import pickle
import sys

from . import cfront
from .core import AnalysisError, VERIF

CACHE = os.path.join(VERIF, ".cache")
_ENGINE_FILES = ["cfront.py", "crange.py", "poly.py", "ckern.py", "cnorm.py"]


def kernel_files(repo):
    root = os.path.join(repo, "src", "hydrodiy")
    fs = sorted(glob.glob(os.path.join(root, "*", "*.c")))
    fs = [f for f in fs if not os.path.basename(f).startswith("c_hydrodiy_")]
    if len(fs) < 10:
        raise AnalysisError(f"only {len(fs)} kernel C files found under {root}")
    return fs


def _digest(paths, extra=b""):
    h = hashlib.sha256(extra)
    for p in paths:
        h.update(os.sep.join(p.split(os.sep)[-2:]).encode())       # position inside the package, not the checkout
        with open(p, "rb") as f:
            h.update(f.read())
    return h.hexdigest()[:24]


def _engine_digest():
    here = os.path.dirname(os.path.abspath(__file__))
    return _digest([os.path.join(here, f) for f in _ENGINE_FILES]).encode()


def _cache_get(key):
    p = os.path.join(CACHE, key + ".pkl")
    if os.path.exists(p):
        try:
            with open(p, "rb") as f:
                got = pickle.load(f)
            os.utime(p, None)          # recently used entries survive the pruning of scratch-copy entries
            return got
        except Exception:
            return None
    return None


def _cache_put(key, obj):
    try:
        os.makedirs(CACHE, exist_ok=True)
        tmp = os.path.join(CACHE, f"{key}.{os.getpid()}.tmp")
        with open(tmp, "wb") as f:
            pickle.dump(obj, f, protocol=pickle.HIGHEST_PROTOCOL)
        os.replace(tmp, os.path.join(CACHE, key + ".pkl"))
        old = sorted((os.path.join(CACHE, f) for f in os.listdir(CACHE) if f.endswith(".pkl")), key=os.path.getmtime)
        for p in old[:-400]:          # scratch-copy variants leave one entry each: keep the cache bounded
            os.remove(p)
    except Exception:
        pass


def _parse_one(path):
    """worker: clang -> pruned {functions, prototypes}"""
    tu = cfront.load_tu(path)
    fns, protos = cfront.functions(tu, path)
    from . import cnorm
    for fn in fns.values():
        try:
            cnorm.light(fn)        # switch / ternary / flag temporaries in the form the abstract interpreter relates to guards
        except cnorm.Unsupported:
            pass                   # left as written: crange refuses what it has no transfer function for (analysis error)
    rel = os.sep.join(path.split(os.sep)[-2:])
    out_f, out_p = {}, {}
    for n, fn in fns.items():
        fn.pop("node", None)
        fn["file"] = rel
        fn["line"] = fn["body"].get("_line")
        out_f[n] = fn
    for n, d in protos.items():
        f = d.get("_file") or ""
        if "hydrodiy" in f and f.endswith(".h"):
            out_p[n] = {"name": n, "file": os.sep.join(f.split(os.sep)[-2:]), "type": d["type"]["qualType"],
                        "params": [(c.get("name", ""), c["type"]["qualType"]) for c in d.get("inner", [])
                                   if c.get("kind") == "ParmVarDecl"]}
    # file-level macros are expanded by clang; nothing else needed
    return rel, out_f, out_p


def load(repo):
    """-> (fns: qualified name -> fn dict, protos: name -> proto dict, files)"""
    files = kernel_files(repo)
    hdrs = sorted(glob.glob(os.path.join(repo, "src", "hydrodiy", "*", "*.h")))
    # one cache entry per kernel file, keyed by content (file, every header, engine) and the path relative to the package: a scratch copy
    # of the repository re-parses only the files its patch touches
    eng = _engine_digest()
    hd = hashlib.sha256(eng)
    for h_ in hdrs:
        hd.update(os.sep.join(h_.split(os.sep)[-2:]).encode())
        with open(h_, "rb") as f:
            hd.update(f.read())
    keys = {}
    for f_ in files:
        h = hashlib.sha256(hd.digest())
        h.update(os.sep.join(f_.split(os.sep)[-2:]).encode())
        with open(f_, "rb") as f:
            h.update(f.read())
        keys[f_] = "cfile_" + h.hexdigest()[:24]
    have = {f_: _cache_get(keys[f_]) for f_ in files}
    todo = [f_ for f_ in files if have[f_] is None]
    if todo:
        with mp.get_context("fork").Pool(min(16, len(todo))) as pool:
            for f_, r_ in zip(todo, pool.map(_parse_one, todo)):
                have[f_] = r_
                _cache_put(keys[f_], r_)
    res = [have[f_] for f_ in files]
    fns, protos = {}, {}
    for rel, f, p in res:
        for n, fn in f.items():
            q = n
            if n in fns or fn.get("static") or n == "compare":
                q = f"{n}@{rel}"
            fn["qname"] = q
            fns[q] = fn
        protos.update(p)
    return (fns, protos, [os.sep.join(f.split(os.sep)[-2:]) for f in files])


def callees(node, acc=None):
    acc = set() if acc is None else acc
    if node.get("kind") == "CallExpr":
        c = cfront.strip(node["inner"][0])
        if c.get("kind") == "DeclRefExpr":
            acc.add(c["referencedDecl"]["name"])
    if node.get("kind") == "DeclRefExpr" and node.get("referencedDecl", {}).get("kind") == "FunctionDecl":
        acc.add(node["referencedDecl"]["name"])      # function used as a value (qsort comparator)
    for ch in node.get("inner", []):
        if ch.get("kind"):
            callees(ch, acc)
    return acc


def resolve(name, fns, fromfile):
    """callee name -> qualified name (same-file static first)"""
    q = f"{name}@{fromfile}"
    if q in fns:
        return q
    if name in fns:
        return name
    return None


def call_graph(fns):
    g = {}
    for q, fn in fns.items():
        g[q] = {r for r in (resolve(c, fns, fn["file"]) for c in callees(fn["body"])) if r and r != q}
    return g


def topo_levels(g):
    level = {}

    def lv(n, stack=()):
        if n in level:
            return level[n]
        if n in stack:
            raise AnalysisError(f"recursive call cycle through {n}: the bottom-up analysis is not sound on it")
        level[n] = 1 + max([lv(c, stack + (n,)) for c in g[n]], default=-1)
        return level[n]
    for n in g:
        lv(n)
    out = {}
    for n, l in level.items():
        out.setdefault(l, []).append(n)
    return [sorted(out[l]) for l in sorted(out)]


_G = {}
_NORM = {}


_REQUESTED = []


def requested():
    """(name, normalised function) of every kernel a rule of this process has asked for"""
    return list(_REQUESTED)


FLOAT_LIBM = {"fminf", "fmaxf", "fabsf", "sqrtf", "powf", "expf", "logf", "log10f", "floorf", "ceilf", "roundf", "truncf", "fmodf", "sinf", "cosf", "tanf",
              "sinhf", "coshf", "tanhf", "asinf", "acosf", "atanf", "atan2f", "hypotf", "cbrtf", "exp2f", "log2f", "log1pf", "expm1f", "copysignf", "nanf"}


def single_precision(fn):
    """declarations, casts and literals of type float in a (normalised, helpers inlined) kernel: the data are float64 and
    every property is stated for double arithmetic, so a float temporary silently drops 29 bits"""
    from .cfront import text
    out = []

    def rec(n):
        if not isinstance(n, dict):
            return
        k = n.get("kind")
        q = n.get("type", {}).get("qualType", "") if isinstance(n.get("type"), dict) else ""
        isf = "float" in q.replace("double", "")
        if k in ("VarDecl", "ParmVarDecl") and isf:
            out.append((n.get("_line", 0), f"{q} {n.get('name')}"))
        elif k == "CStyleCastExpr" and isf:
            out.append((n.get("_line", 0), f"cast to {q}"))
        elif k == "FloatingLiteral" and isf:
            out.append((n.get("_line", 0), f"float literal {n.get('value')}"))
        elif k == "CallExpr":
            c = n.get("inner", [{}])[0]
            while isinstance(c, dict) and c.get("kind") in ("ImplicitCastExpr", "ParenExpr"):
                c = c.get("inner", [{}])[0]
            nm = (c.get("referencedDecl") or {}).get("name") if isinstance(c, dict) else None
            if nm in FLOAT_LIBM:
                out.append((n.get("_line", 0), f"single-precision library function {nm}()"))
        for c in n.get("inner", []) or []:
            rec(c)
    rec(fn.get("body") or {})
    for p_ in fn.get("params", []) or []:
        if isinstance(p_, dict):
            rec(p_)
    return out


def normalised(K, qname, repo):
    """function `qname` after the semantics-preserving rewrites of cnorm (helpers inlined, temporaries substituted)"""
    from . import cnorm, pyxread
    key = id(K)
    inl = _NORM.get(key)
    if inl is None:
        entries = set()
        for cm, d in pyxread.load_all(repo).items():
            for sh in d["shims"]:
                if sh.kernel:
                    entries.add(sh.kernel)
        inl = _NORM[key] = cnorm.normalise_all(K, entries)
    try:
        fn = inl.normalised(qname)
        if all(q != qname for q, _ in _REQUESTED):
            _REQUESTED.append((qname, fn))
        return fn
    except cnorm.Unsupported as e:
        raise AnalysisError(f"{K['fns'][qname]['file']}: {qname}: normalisation refused ({e})")


def _analyze_one(args):
    q, summ = args
    from .crange import Analyzer
    fns = _G["fns"]
    sys.setrecursionlimit(20000)
    an = Analyzer(fns, summ)
    try:
        r = an.analyze(q)
        return q, r, None
    except Exception as e:        # reported as analysis error by the caller
        import traceback
        return q, None, f"{type(e).__name__}: {e} :: {traceback.format_exc().strip().splitlines()[-3:]}"


def analyze(repo):
    """-> dict(fns, protos, files, graph, summaries)"""
    fns, protos, files = load(repo)
    srcs = kernel_files(repo) + sorted(glob.glob(os.path.join(repo, "src", "hydrodiy", "*", "*.h")))
    key = "crange_" + _digest(srcs, _engine_digest())
    got = _cache_get(key)
    g = call_graph(fns)
    if got is not None:
        return {"fns": fns, "protos": protos, "files": files, "graph": g, "summ": got}
    levels = topo_levels(g)
    summ = {}
    _G["fns"] = fns
    import concurrent.futures as cf
    with cf.ProcessPoolExecutor(max_workers=16, mp_context=mp.get_context("fork")) as pool:
        for lvl in levels:
            todo = [q for q in lvl if not q.startswith("compare@")]
            snap = dict(summ)          # the feeder thread pickles lazily: never hand it the dict being updated
            for q, r, err in pool.map(_analyze_one, [(q, snap) for q in todo]):
                if err:
                    raise AnalysisError(f"range analysis crashed in {q}: {err}")
                summ[q] = r
                # callers look callees up by bare name
                summ.setdefault(fns[q]["name"], r)
    _cache_put(key, summ)
    return {"fns": fns, "protos": protos, "files": files, "graph": g, "summ": summ}
