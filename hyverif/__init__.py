"""hyverif -- static verification machinery for hydrodiy (see /verif/DESIGN.md)."""
