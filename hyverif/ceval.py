"""Symbolic evaluation of straight-line C statement lists (clang JSON AST) into the Expr IR of formula.py.

`CEval.run(stmts, env)` walks statements with an environment of scalar definitions; stores to array elements
and pointer targets are recorded as effects (array, index Expr, '=' | '+=' ..., value Expr, path conditions).
Conditions are decided by an `oracle(cond Expr)` callback (True / False / None); undecided conditions fork the
path and are recorded.  Loops are not unrolled: clients evaluate loop bodies for a symbolic iteration."""
from fractions import Fraction

from .cfront import strip, text
from .formula import Undecided, num

CALLS = {"fabs": "abs", "sqrt": "sqrt", "log": "log", "exp": "exp", "pow": "pow", "floor": "floor", "isnan": "isnan",
         "fmin": "min", "fmax": "max", "abs": "abs", "__builtin_isnan": "isnan", "__isnan": "isnan", "__isnanf": "isnan",
         "__builtin_isinf_sign": "isinf", "__builtin_fabs": "abs", "llabs": "abs", "labs": "abs"}


class Effect:
    def __init__(self, arr, idx, op, val, conds, line, loops=()):
        self.arr, self.idx, self.op, self.val, self.conds, self.line = arr, idx, op, val, list(conds), line
        self.loops = tuple(loops)        # loop variables of the summarised loops the effect sits in (outermost first)

    def __repr__(self):
        from .formula import show
        return f"{self.arr}[{show(self.idx) if self.idx is not None else ''}] {self.op} {show(self.val) if isinstance(self.val, tuple) and self.val and isinstance(self.val[0], str) else self.val} if {[(show(c), t) for c, t in self.conds]} in {self.loops}"


class Stop(Exception):
    pass


def to_expr(e, env, arrays=None):
    """clang expression -> Expr.  env: variable name -> Expr; unknown scalars become symbols; array reads become
    ('call', 'A:<name>', (index,)) unless `arrays` maps the name to a callable(index Expr) -> Expr"""
    k = e.get("kind")
    if k in ("ParenExpr", "ConstantExpr"):
        return to_expr(e["inner"][0], env, arrays)
    if k in ("ImplicitCastExpr", "CStyleCastExpr"):
        return to_expr(e["inner"][0], env, arrays)
    if k == "IntegerLiteral":
        return num(int(e["value"]))
    if k == "FloatingLiteral":
        return num(Fraction(e["value"]))
    if k == "DeclRefExpr":
        n = e["referencedDecl"]["name"]
        return env.get(n, ('sym', n))
    if k == "UnaryOperator":
        op = e["opcode"]
        if op == "-":
            return ('neg', to_expr(e["inner"][0], env, arrays))
        if op == "+":
            return to_expr(e["inner"][0], env, arrays)
        if op == "!":
            return ('not', to_expr(e["inner"][0], env, arrays))
        if op == "*":
            b = strip(e["inner"][0])
            if b.get("kind") == "DeclRefExpr":
                return _aread(b["referencedDecl"]["name"], num(0), env, arrays)
        if op == "&":
            b = strip(e["inner"][0])
            if b.get("kind") == "DeclRefExpr":
                return ('call', 'addr', (('sym', b["referencedDecl"]["name"]),))
            if b.get("kind") == "ArraySubscriptExpr":
                return ('call', 'addr', (to_expr(b, env, arrays),))
        raise Undecided(f"unary {op}")
    if k == "ArraySubscriptExpr":
        b = strip(e["inner"][0])
        idx = to_expr(e["inner"][1], env, arrays)
        if b.get("kind") == "DeclRefExpr":
            return _aread(b["referencedDecl"]["name"], idx, env, arrays)
        if b.get("kind") == "ArraySubscriptExpr":
            bb = strip(b["inner"][0])
            if bb.get("kind") == "DeclRefExpr":
                i0 = to_expr(b["inner"][1], env, arrays)
                return _aread(bb["referencedDecl"]["name"], ('tuple', (i0, idx)), env, arrays)
        raise Undecided("subscript base")
    if k == "BinaryOperator":
        op = e["opcode"]
        a, b = to_expr(e["inner"][0], env, arrays), to_expr(e["inner"][1], env, arrays)
        m = {"+": 'add', "-": 'sub', "*": 'mul', "/": 'div', "&&": 'and', "||": 'or', "|": 'or', "&": 'and'}
        INF = ('call', 'inf', ())
        if op == "/" and b == num(0):
            return ('nan',) if a == num(0) else INF          # 0./0. and 1./0. as the kernels spell NaN and infinity
        if op == "*" and ((a == INF and b == num(0)) or (b == INF and a == num(0))):
            return ('nan',)
        if op == "/" and _int_typed(e):
            # C integer division truncates: exact only when it folds to an integer constant
            if a[0] == 'num' and b[0] == 'num' and b[1] != 0 and Fraction(a[1]) % Fraction(b[1]) == 0:
                return num(Fraction(a[1]) / Fraction(b[1]))
            # a / b == (a - a % b) / b in C for every sign (6.5.5p6); when a is itself `X - X % b` the division is exact
            if a[0] == 'sub' and a[2] == ('call', 'mod', (a[1], b)):
                return ('div', a, b)
            return ('div', ('sub', a, ('call', 'mod', (a, b))), b)
        if op in m:
            return (m[op], a, b)
        if op in ("<", "<=", ">", ">=", "==", "!="):
            return ('cmp', op, a, b)
        if op == "%":
            return ('call', 'mod', (a, b))
        raise Undecided(f"binary {op}")
    if k == "ConditionalOperator":
        c, a, b = e["inner"]
        return ('where', to_expr(c, env, arrays), to_expr(a, env, arrays), to_expr(b, env, arrays))
    if k == "CallExpr":
        c = strip(e["inner"][0])
        name = c["referencedDecl"]["name"] if c.get("kind") == "DeclRefExpr" else None
        args = tuple(to_expr(a, env, arrays) for a in e["inner"][1:])
        if name == "pow" and len(args) == 2:
            return ('pow', args[0], args[1])
        if name in CALLS:
            return ('call', CALLS[name], args)
        return ('call', f"c:{name}", args)
    if k == "UnaryExprOrTypeTraitExpr":
        return ('call', 'sizeof', (('sym', str(e.get("argType", {}).get("qualType", "?"))),))
    if k == "StringLiteral":
        return ('sym', 'str:' + str(e.get("value", ""))[:20])
    raise Undecided(f"C expression {k}")


def _int_typed(e):
    q = e.get("type", {}).get("qualType", "")
    return bool(q) and not any(t in q for t in ("double", "float", "*")) and any(t in q for t in ("int", "long", "short", "char", "size_t"))


def _aread(name, idx, env, arrays):
    key = f"{name}[{_show(idx)}]"
    if key in env:
        return env[key]          # value stored earlier on this path
    if arrays and name in arrays:
        return arrays[name](idx)
    return ('call', 'A:' + name, (idx,))


def _show(e):
    """canonical text of an index expression (constant indices are folded so that a[3-1] and a[2] coincide)"""
    from .formula import show, Canon
    try:
        r = Canon().ratio(e)
        if r.is_const() and r.cval().denominator == 1:
            return str(int(r.cval()))
    except Exception:
        pass
    return show(e)


class CEval:
    def __init__(self, oracle=None, arrays=None):
        self.oracle = oracle or (lambda c: None)
        self.arrays = arrays
        self.effects = []
        self.returns = []
        self.maxpaths = 256
        self.npaths = 0
        self.summarise_loops = False     # True: a nested loop is evaluated for one symbolic iteration (see _loop)
        self.loopctx = ()
        self.loop_returns = []           # (value | kind, conds, line, loops) of return / break inside summarised loops
        self.finals = []                 # (env, conds, how) at every path end: how = 'end' | 'return' | 'BreakStmt' | 'ContinueStmt'
        self.havocked = set()

    def ex(self, e, env):
        return self.resolve(to_expr(e, env, self.arrays))

    def resolve(self, e):
        """conditional expressions whose test the oracle decides are replaced by the selected branch"""
        if not isinstance(e, tuple) or not e or e[0] in ('x', 'sym', 'num', 'nan'):
            return e
        if e[0] == 'where':
            d = self.oracle(e[1])
            if d is True:
                return self.resolve(e[2])
            if d is False:
                return self.resolve(e[3])
            return ('where', e[1], self.resolve(e[2]), self.resolve(e[3]))
        if e[0] == 'call':
            return (e[0], e[1], tuple(self.resolve(a) for a in e[2])) + tuple(e[3:])
        if e[0] == 'tuple':
            return ('tuple', tuple(self.resolve(a) for a in e[1]))
        if e[0] == 'cmp':
            return ('cmp', e[1], self.resolve(e[2]), self.resolve(e[3]))
        return (e[0],) + tuple(self.resolve(c) if isinstance(c, tuple) else c for c in e[1:])

    def run(self, stmts, env, conds=()):
        self._walk(list(stmts), dict(env), list(conds))
        return self

    def _lhs(self, t, env):
        t = strip(t)
        k = t.get("kind")
        if k == "DeclRefExpr":
            return ("var", t["referencedDecl"]["name"], None)
        if k == "ArraySubscriptExpr":
            b = strip(t["inner"][0])
            if b.get("kind") == "DeclRefExpr":
                return ("arr", b["referencedDecl"]["name"], self.ex(t["inner"][1], env))
            if b.get("kind") == "ArraySubscriptExpr":
                bb = strip(b["inner"][0])
                if bb.get("kind") == "DeclRefExpr":
                    return ("arr", bb["referencedDecl"]["name"], ('tuple', (self.ex(b["inner"][1], env), self.ex(t["inner"][1], env))))
        if k == "UnaryOperator" and t.get("opcode") == "*":
            b = strip(t["inner"][0])
            if b.get("kind") == "DeclRefExpr":
                return ("arr", b["referencedDecl"]["name"], num(0))
        raise Undecided("assignment target")

    def _arg(self, a, env):
        try:
            return self.ex(a, env)
        except Undecided:
            return ('sym', '&' + text(a).replace(" ", "").lstrip("&"))

    def _havoc_calls(self, s, env):
        """a call of a function of the repository may write through its pointer arguments: what the environment knows
        about those arrays / address-taken scalars is forgotten"""
        from .cnorm import PURE_CALLS, NO_EFFECT_CALLS, walk, callee_name
        for n in walk(s):
            if n.get("kind") == "CallExpr" and callee_name(n) in ("memmove", "memcpy", "memset", "memcmp", "bcopy"):
                # block operations of libc rewrite whole ranges of a buffer: outside the element-wise store model
                raise Undecided(f"block operation {callee_name(n)}() is not modelled")
            if n.get("kind") == "CallExpr" and callee_name(n) not in PURE_CALLS and callee_name(n) not in NO_EFFECT_CALLS:
                for a in n["inner"][1:]:
                    a2 = a
                    while a2.get("kind") in ("ParenExpr", "ImplicitCastExpr", "CStyleCastExpr"):
                        a2 = a2["inner"][0]
                    if a2.get("kind") == "UnaryOperator" and a2.get("opcode") == "&":
                        t = strip(a2["inner"][0])
                        if t.get("kind") == "DeclRefExpr":
                            env.pop(t["referencedDecl"]["name"], None)
                            self.havocked.add(t["referencedDecl"]["name"])
                        continue
                    if a2.get("kind") == "DeclRefExpr" and a2.get("type", {}).get("qualType", "").rstrip().endswith(("*", "]")):
                        nm = a2["referencedDecl"]["name"]
                        for k_ in [k_ for k_ in env if k_.startswith(nm + "[")]:
                            del env[k_]

    def _assign(self, s, env, conds):
        r = self._assign0(s, env, conds)
        if r:
            self._havoc_calls(s, env)
        return r

    def _assign0(self, s, env, conds):
        k = s.get("kind")
        if k == "BinaryOperator" and s.get("opcode") == "=":
            kind, name, idx = self._lhs(s["inner"][0], env)
            v = self.ex(s["inner"][1], env)
            if kind == "var":
                env[name] = v
            else:
                self.effects.append(Effect(name, idx, "=", v, conds, s.get("_line")))
                env[f"{name}[{_show(idx)}]"] = v
            return True
        if k == "CompoundAssignOperator":
            kind, name, idx = self._lhs(s["inner"][0], env)
            v = self.ex(s["inner"][1], env)
            op = s["opcode"]
            m = {"+=": 'add', "-=": 'sub', "*=": 'mul', "/=": 'div'}[op]
            if kind == "var":
                env[name] = (m, env.get(name, ('sym', name)), v)
            else:
                self.effects.append(Effect(name, idx, op, v, conds, s.get("_line")))
                key = f"{name}[{_show(idx)}]"
                env[key] = (m, env.get(key, ('call', 'A:' + name, (idx,))), v)
            return True
        if k == "UnaryOperator" and s.get("opcode") in ("++", "--"):
            kind, name, idx = self._lhs(s["inner"][0], env)
            d = num(1)
            m = 'add' if s["opcode"] == "++" else 'sub'
            if kind == "var":
                env[name] = (m, env.get(name, ('sym', name)), d)
            else:
                self.effects.append(Effect(name, idx, "+=" if m == 'add' else "-=", d, conds, s.get("_line")))
            return True
        return False

    def _loop(self, loop, env, conds):
        """one symbolic iteration: scalars assigned in the loop are unknown on entry of an iteration and after the loop,
        array elements stored in the loop are forgotten; effects are tagged with the loop variable"""
        from .cnorm import writes
        wsc, war, _ = writes(loop)
        v = loop_var(loop) or "?"
        sub_env = {k: x for k, x in env.items() if k not in wsc and not any(k.startswith(a + "[") for a in war)}
        parts = loop_parts(loop) if loop["kind"] in ("ForStmt", "WhileStmt") else ({}, loop["inner"][1], {}, loop["inner"][0])
        sub = CEval(self.oracle, self.arrays)
        sub.summarise_loops = True
        sub.loopctx = self.loopctx + (v,)
        sub.maxpaths = self.maxpaths
        cnd = parts[1]
        c0 = []
        if cnd.get("kind"):
            try:
                c0 = [(sub.ex(cnd, dict(sub_env)), True)]
            except Undecided:
                c0 = []
        sub._walk(body_stmts(parts[3]), dict(sub_env), list(conds) + c0)
        for e in sub.effects:
            e.loops = (v,) + tuple(e.loops) if not e.loops or e.loops[0] != v else e.loops
            self.effects.append(e)
        for r in sub.returns:
            if r[0] not in ("end", "ContinueStmt"):
                self.loop_returns.append((r[0], r[1], r[2], sub.loopctx))
        self.loop_returns += sub.loop_returns
        for k in list(env):
            if k in wsc or any(k.startswith(a + "[") for a in war):
                del env[k]

    def _walk(self, stmts, env, conds):
        self.npaths += 1
        if self.npaths > self.maxpaths:
            raise Undecided("too many paths")
        for i, s in enumerate(stmts):
            k = s.get("kind")
            if k is None or k == "NullStmt":
                continue
            if k == "CompoundStmt":
                return self._walk(list(s.get("inner", [])) + stmts[i + 1:], env, conds)
            if k == "DeclStmt":
                for d in s.get("inner", []):
                    if d.get("kind") == "VarDecl":
                        init = [c for c in d.get("inner", []) if c.get("kind")]
                        if init:
                            try:
                                env[d["name"]] = self.ex(init[0], env)
                            except Undecided:
                                env.pop(d["name"], None)
                continue
            if k == "IfStmt":
                inner = s["inner"]
                c = self.ex(inner[0], env)
                then = [inner[1]]
                els = [inner[2]] if len(inner) > 2 else []
                dec = self.oracle(c)
                rest = stmts[i + 1:]
                if dec is True:
                    return self._walk(then + rest, env, conds)
                if dec is False:
                    return self._walk(els + rest, env, conds)
                self._walk(then + rest, dict(env), conds + [(c, True)])
                self._walk(els + rest, dict(env), conds + [(c, False)])
                return
            if k == "ReturnStmt":
                v = self.ex(s["inner"][0], env) if s.get("inner") else None
                self.returns.append((v, list(conds), s.get("_line")))
                self.finals.append((dict(env), list(conds), "return"))
                return
            if k in ("BreakStmt", "ContinueStmt"):
                self.returns.append((k, list(conds), s.get("_line")))
                self.finals.append((dict(env), list(conds), k))
                return
            if k in ("ForStmt", "WhileStmt", "DoStmt"):
                if not self.summarise_loops:
                    raise Undecided("loop inside an evaluated block")
                self._loop(s, env, conds)
                continue
            if self._assign(strip(s) if s.get("kind") == "ParenExpr" else s, env, conds):
                continue
            if k == "CallExpr":
                c = strip(s["inner"][0])
                name = c["referencedDecl"]["name"] if c.get("kind") == "DeclRefExpr" else None
                if name in ("free", "fprintf", "printf"):
                    continue
                self.effects.append(Effect("call:" + str(name), None, "call", tuple(self._arg(a, env) for a in s["inner"][1:]), conds, s.get("_line")))
                self._havoc_calls(s, env)
                continue
            if k == "BinaryOperator" and s.get("opcode") == ",":
                self._walk(list(s["inner"]) + stmts[i + 1:], env, conds)
                return
            raise Undecided(f"C statement {k}")
        self.returns.append(("end", list(conds), None))
        self.finals.append((dict(env), list(conds), "end"))


# --------------------------------------------------------------------------- navigation helpers
def find_all(node, pred, acc=None):
    acc = [] if acc is None else acc
    if pred(node):
        acc.append(node)
    for c in node.get("inner", []):
        if c.get("kind"):
            find_all(c, pred, acc)
    return acc


def loops(fn_body):
    return find_all(fn_body, lambda n: n.get("kind") in ("ForStmt", "WhileStmt"))


def loop_parts(loop):
    if loop["kind"] == "ForStmt":
        init, _cv, cond, inc, body = loop["inner"]
        return init, cond, inc, body
    cond, body = loop["inner"]
    return {}, cond, {}, body


def body_stmts(body):
    if body.get("kind") == "CompoundStmt":
        return list(body.get("inner", []))
    return [body]


def loop_var(loop):
    init, cond, inc, body = loop_parts(loop)
    i = strip(inc) if inc.get("kind") else {}
    if i.get("kind") == "UnaryOperator" and i.get("opcode") in ("++", "--"):
        t = strip(i["inner"][0])
        if t.get("kind") == "DeclRefExpr":
            return t["referencedDecl"]["name"]
    return None


def mentions(node, name):
    return bool(find_all(node, lambda n: n.get("kind") == "DeclRefExpr" and n["referencedDecl"]["name"] == name))


def stores_to(node, arr):
    """assignment / compound-assignment nodes whose target is arr[..] or *arr"""
    def pred(n):
        if n.get("kind") in ("BinaryOperator", "CompoundAssignOperator") and n.get("opcode") in ("=", "+=", "-=", "*=", "/="):
            t = strip(n["inner"][0])
            if t.get("kind") == "ArraySubscriptExpr":
                b = strip(t["inner"][0])
                while b.get("kind") == "ArraySubscriptExpr":
                    b = strip(b["inner"][0])
                return b.get("kind") == "DeclRefExpr" and b["referencedDecl"]["name"] == arr
            if t.get("kind") == "UnaryOperator" and t.get("opcode") == "*":
                b = strip(t["inner"][0])
                return b.get("kind") == "DeclRefExpr" and b["referencedDecl"]["name"] == arr
        return False
    return find_all(node, pred)
