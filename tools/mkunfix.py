#!/usr/bin/env python3
"""Regenerate /verif/selftest/unfix/: for every `fixed` entry of known_findings.json, the source
part of the fix commit's diff (tests excluded).  The self-test applies each IN REVERSE to a scratch
copy of the current tree, i.e. re-introduces the defect, and expects the recorded rule to fire."""
import json
import os
import subprocess

VERIF = os.path.dirname(os.path.dirname(os.path.abspath(__file__)))
out = os.path.join(VERIF, "selftest", "unfix")
os.makedirs(out, exist_ok=True)
k = json.load(open(os.path.join(VERIF, "known_findings.json")))
index = []
for f in k["findings"]:
    if f.get("status") != "fixed" or not f.get("commit"):
        continue
    c = f["commit"]
    d = subprocess.run(["git", "-C", "/repo", "show", "--format=", c, "--", "src", ":(exclude)src/hydrodiy/*/tests/*"],
                       capture_output=True).stdout
    if not d.strip():
        print("empty diff for", c)
        continue
    fn = c + ".diff"
    with open(os.path.join(out, fn), "wb") as fh:
        fh.write(d)
    rule = f["key"].split("|")[0]
    index.append({"name": f"{f['property']}-unfix-{c}", "property": f["property"], "patch": fn, "rules": [rule],
                  "what": f.get("what", "")[:200]})
# freeze, per entry, the rules that fire today on the re-introduced defect (run once, by hand, when the
# catalogue is regenerated); an entry whose reverse patch no longer applies or that is not detected is
# listed with rules=[] and "detected": false and is not part of the self-test expectations.
import sys
sys.path.insert(0, VERIF)
from hyverif import selftest
keep = []
for e in index:
    v = {"kind": "unfix", "name": e["name"], "property": e["property"], "patch": os.path.join(out, e["patch"]),
         "reverse": True, "expect": 1, "rules": []}
    r = selftest.run_variant(v, "/repo")
    e["detected"] = r["status"] == "ok"
    e["rules"] = r.get("fired", [])
    e["status_when_generated"] = r["status"] + (": " + r.get("detail", "") if r["status"] == "skipped" else "")
    print(e["name"], r["status"], r.get("fired"), r.get("detail", "")[:100])
    if e["detected"]:
        keep.append(e)
json.dump(index, open(os.path.join(out, "index_all.json"), "w"), indent=1)
json.dump(keep, open(os.path.join(out, "index.json"), "w"), indent=1)
print(len(keep), "of", len(index), "entries kept")
