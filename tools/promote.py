#!/usr/bin/env python3
"""usage: promote.py [Cxx ...] -- move staged benign variants that are silent under their property's check
from selftest/benign_pending to selftest/benign (where the thorough tier expects them to stay silent)."""
import glob, json, os, shutil, sys
VERIF = os.path.dirname(os.path.dirname(os.path.abspath(__file__)))
sys.path.insert(0, VERIF)
from hyverif import selftest
pids = {a.upper() for a in sys.argv[1:]}
for pp in sorted(glob.glob(os.path.join(VERIF, "selftest", "benign_pending", "*", "patch.diff"))):
    d = os.path.dirname(pp); name = os.path.basename(d); pid = name.split("-")[0]
    if pids and pid not in pids:
        continue
    r = selftest.run_variant({"kind": "benign", "name": name, "property": pid, "patch": pp, "reverse": False, "expect": 0, "rules": []}, "/repo")
    if r["status"] == "ok":
        m = json.load(open(os.path.join(d, "meta.json")))
        m["property"] = pid
        json.dump(m, open(os.path.join(d, "meta.json"), "w"), indent=1)
        shutil.move(d, os.path.join(VERIF, "selftest", "benign", name))
        print("promoted", name)
    else:
        print("kept pending", name, r["status"], r.get("exit"), r.get("fired"))
