#!/usr/bin/env python3
"""usage: trybenign.py <dir containing b*/patch.diff> [Cxx ...]
Runs the named checks (default: the property in meta.json) against scratch copies of /repo with each
candidate behaviour-preserving variant applied, and prints what fires (expected: nothing)."""
import glob
import json
import os
import sys

VERIF = os.path.dirname(os.path.dirname(os.path.abspath(__file__)))
sys.path.insert(0, VERIF)
from hyverif import selftest  # noqa: E402

d = sys.argv[1]
pids = [p.upper() for p in sys.argv[2:]]
for pp in sorted(glob.glob(os.path.join(d, "*", "patch.diff"))):
    name = os.path.basename(os.path.dirname(pp))
    try:
        m = json.load(open(os.path.join(os.path.dirname(pp), "meta.json")))
    except Exception:
        m = {}
    for pid in (pids or [m.get("property")]):
        v = {"kind": "benign", "name": name, "property": pid, "patch": pp, "reverse": False, "expect": 0, "rules": []}
        r = selftest.run_variant(v, "/repo")
        print(f"{pid} {name}: {r['status']} exit={r.get('exit')} fired={r.get('fired')} {r.get('detail', '')[:150]}")
        for l in r.get("report") or []:
            print("     ", l)
