#!/usr/bin/env python3
"""Re-run the current checks on every seeded change and record the rules that fire now in its meta.json (run by hand after
the rules change; the self-test then expects one of those rules to keep firing)."""
import glob, json, os, sys
from concurrent.futures import ThreadPoolExecutor
VERIF = os.path.dirname(os.path.dirname(os.path.abspath(__file__)))
sys.path.insert(0, VERIF)
from hyverif import selftest
dirs = sorted(glob.glob(os.path.join(VERIF, "seeded", sys.argv[1] if len(sys.argv) > 1 else "*")))
def one(d):
    m = json.load(open(os.path.join(d, "meta.json")))
    v = {"kind": "seeded", "name": m["id"], "property": m["property"], "patch": os.path.join(d, "patch.diff"), "reverse": False, "expect": 1, "rules": []}
    r = selftest.run_variant(v, "/repo")
    m["detected"] = r["status"] == "ok"
    m["detected_by"] = r.get("fired", [])
    m["report_lines"] = r.get("report", [])
    json.dump(m, open(os.path.join(d, "meta.json"), "w"), indent=1)
    return m["id"], r["status"], r.get("fired")
with ThreadPoolExecutor(10) as ex:
    for x in ex.map(one, dirs):
        print(*x)
