#!/usr/bin/env python3
"""every benign variant against EVERY property's check (a behaviour-preserving change violates no property): prints what is not silent"""
import glob, os, sys
from concurrent.futures import ThreadPoolExecutor
VERIF = os.path.dirname(os.path.dirname(os.path.abspath(__file__)))
sys.path.insert(0, VERIF)
from hyverif import selftest
PROPS = ["C%02d" % i for i in range(1, 21)]
vs = []
for base in ("benign", "benign_pending"):
    for pp in sorted(glob.glob(os.path.join(VERIF, "selftest", base, sys.argv[1] if len(sys.argv) > 1 else "*", "patch.diff"))):
        name = os.path.basename(os.path.dirname(pp))
        own = name.split("-")[0]
        for pid in PROPS:
            if pid == own:
                continue
            vs.append({"kind": "benign", "name": name, "property": pid, "patch": pp, "reverse": False, "expect": 0, "rules": []})
with ThreadPoolExecutor(14) as ex:
    res = list(ex.map(lambda v: selftest.run_variant(v, "/repo"), vs))
bad = [r for r in res if r["status"] != "ok"]
for r in bad:
    print(f"{r['name']} x {r['property']}: {r['status']} exit={r.get('exit')} fired={r.get('fired')} {(r.get('report') or [''])[0][:200]}")
print(f"{len(res) - len(bad)}/{len(res)} silent")
