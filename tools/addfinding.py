#!/usr/bin/env python3
"""addfinding.py status property commit|- 'rule key or construct' 'what'   -- append to known_findings.json (never at check run time)"""
import json, sys
p = "/verif/known_findings.json"
d = json.load(open(p))
status, prop, commit, key, what = sys.argv[1:6]
e = {"status": status, "property": prop, "key": key, "what": what}
if commit != "-":
    e["commit"] = commit
d["findings"].append(e)
json.dump(d, open(p, "w"), indent=1)
