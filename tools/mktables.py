#!/usr/bin/env python3
"""Regenerates the tables of DESIGN.md sections D (fixed defects) and E (seeded changes) from known_findings.json and
seeded/*/meta.json.  usage: mktables.py  (rewrites DESIGN.md in place between the table header line and the next blank line)"""
import glob, json, os, re
VERIF = os.path.dirname(os.path.dirname(os.path.abspath(__file__)))
dp = os.path.join(VERIF, "DESIGN.md")
s = open(dp).read()


def replace_table(s, header, rows):
    i = s.index(header)
    j = s.index("\n\n", i)
    return s[:i] + header + "\n" + "\n".join(rows) + s[j:]


kf = json.load(open(os.path.join(VERIF, "known_findings.json")))["findings"]
rows = []
for k in kf:
    if k.get("status") != "fixed":
        continue
    what = k.get("what", "").replace("|", "/").replace("\n", " ")
    rows.append(f"| {k.get('commit', '')[:7]} | {k.get('property')} | {what[:330]} |")
s = replace_table(s, "| commit | property | what failed |\n|---|---|---|", rows)
s = re.sub(r"\d+ entries in `known_findings.json`, all `fixed`", f"{len(rows)} entries in `known_findings.json`, all `fixed`", s)
rows = []
nd = 0
for mp in sorted(glob.glob(os.path.join(VERIF, "seeded", "*", "meta.json"))):
    m = json.load(open(mp))
    summ = (m.get("summary") or "").replace("|", "/").replace("\n", " ")
    fired = ", ".join(m.get("detected_by") or []) if m.get("detected") else "**missed**"
    nd += bool(m.get("detected"))
    rows.append(f"| {m['id']} | {fired} | {summ[:170]} |")
s = replace_table(s, "| change | rules that fire | what was changed |\n|---|---|---|", rows)
open(dp, "w").write(s)
print(f"D: {len([k for k in kf if k.get('status') == 'fixed'])} fixed; E: {len(rows)} seeded, {nd} detected")
