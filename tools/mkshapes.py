#!/usr/bin/env python3
"""Record the structural fingerprints of every function of /repo (run when the rules are re-anchored to a new tree)."""
import json, os, sys
VERIF = os.path.dirname(os.path.dirname(os.path.abspath(__file__)))
sys.path.insert(0, VERIF)
from hyverif import shapes
repo = sys.argv[1] if len(sys.argv) > 1 else "/repo"
s = shapes.shapes(repo)
json.dump(s, open(os.path.join(VERIF, "baseline_shapes.json"), "w"), indent=0, sort_keys=True)
print(len(s), "functions")
