#!/usr/bin/env python3
"""usage: benign_all.py [Cxx ...] [-v]   -- run every staged benign variant (selftest/benign_pending and selftest/benign)
against its property's check on a scratch copy; print one line per variant (expected: exit 0)."""
import glob
import json
import os
import sys
from concurrent.futures import ThreadPoolExecutor

VERIF = os.path.dirname(os.path.dirname(os.path.abspath(__file__)))
sys.path.insert(0, VERIF)
from hyverif import selftest  # noqa: E402

args = [a for a in sys.argv[1:] if not a.startswith("-")]
verbose = "-v" in sys.argv
pids = {a.upper() for a in args}
vs = []
for base in ("benign_pending", "benign"):
    for pp in sorted(glob.glob(os.path.join(VERIF, "selftest", base, "*", "patch.diff"))):
        name = os.path.basename(os.path.dirname(pp))
        pid = name.split("-")[0]
        if pids and pid not in pids:
            continue
        vs.append({"kind": "benign", "name": name, "property": pid, "patch": pp, "reverse": False, "expect": 0, "rules": [], "base": base})
with ThreadPoolExecutor(6) as ex:
    res = list(ex.map(lambda v: selftest.run_variant(v, "/repo"), vs))
ok = 0
for r in res:
    ok += r["status"] == "ok"
    print(f"{r['name']:<10} {r['status']:<9} exit={r.get('exit')} fired={','.join(r.get('fired') or [])} {r.get('detail', '')[:100]}")
    if verbose and r["status"] != "ok":
        for l in r.get("report") or []:
            print("      ", l[:260])
print(f"{ok}/{len(res)} silent")
