#!/usr/bin/env python3
"""Regenerate MANIFEST.json from the table below (kept in one place so that it stays valid)."""
import json, os
HERE = os.path.dirname(os.path.dirname(os.path.abspath(__file__)))
CLAIMED = json.load(open(os.path.join(HERE, "tools", "claimed.json")))
props = [json.loads(l) for l in open(os.path.join(HERE, "properties.jsonl"))]
checks, na = [], []
for p in props:
    pid = p["id"]
    c = CLAIMED.get(pid)
    if c is None or not os.path.exists(os.path.join(HERE, "hyverif", "rules", pid.lower() + ".py")):
        na.append({"property_id": pid, "reason": (c or {}).get("na_reason", "structural clauses identified in DESIGN.md section 5 not implemented yet; the numeric remainder is out of reach of static analysis")})
        continue
    checks.append({
        "property_id": pid,
        "quick_cmd": f"./hv check {pid} --tier quick",
        "thorough_cmd": f"./hv check {pid} --tier thorough",
        "evidence_file": f"/verif/evidence/{pid}.json",
        "replay_cmd_template": "./hv replay {path}",
        "engine": "hyverif",
        "level_claimed": {"category": "other", "text": c["text"], "design_ref": f"DESIGN.md section 5, {pid}"},
        "level_note": c["note"],
        "technique": c["technique"],
    })
m = {
    "version": 1,
    "setup_cmd": "python3-vt -m compileall -q hyverif >/dev/null 2>&1 || python3 -m compileall -q hyverif",
    "hooks": {"guard": "HYDRODIY_VERIF", "enable": "none needed: the checks read sources and execute nothing; no hook commits exist",
              "baseline_off_cmd": "cd /repo && /venv/bin/python -m pytest -ra -q -p no:cacheprovider --timeout=900 --continue-on-collection-errors",
              "source_commits": [], "add_only": True},
    "engines": [{"name": "hyverif", "path": "/verif/hyverif", "serves_properties": [c["property_id"] for c in checks],
                 "kind_free_text": "static analysis: clang JSON AST + symbolic range analysis of C kernels, semantics-preserving normalisation of C and Python sources, path-wise abstract evaluation with effects, Cython shim reader, shape/alias/effect/key-table/formula analyses, computer algebra (sympy) on extracted formulas, row/column dimension typing; no code of the repository is executed"}],
    "checks": checks,
    "not_applicable": na,
    "notes": "All checks are static (python3-vt: standard library, plus sympy / numpy / mpmath of the tooling venv for the computer-algebra clauses of C01 and C02; clang -ast-dump=json). Exit 0 held / 1 violation (VIOLATION line) / 2 analysis error (anchor vanished, construct not recognised, obligation undecided, file restructured beyond the calibrated distance: never a VIOLATION). known_findings.json lists the fixed findings; seeded/ and selftest/ hold the corpora the thorough tier replays on scratch copies.",
}
json.dump(m, open(os.path.join(HERE, "MANIFEST.json"), "w"), indent=1)
print("checks:", [c["property_id"] for c in checks], "n/a:", len(na))
