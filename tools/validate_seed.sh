#!/bin/bash
# usage: validate_seed.sh <src dir with patch.diff demo.py meta.json> <Cxx> <name>
# Confirms a candidate seeded change against the CURRENT /repo HEAD in a scratch
# worktree outside /repo and /verif:
#   1. the demonstration exits 0 on the clean tree
#   2. the patch applies (git apply, then patch -F3) and the extensions rebuild
#   3. the demonstration exits non-zero on the changed tree
#   4. the pinned suite still passes (183/183 stable tests)
#   5. the property's check, pointed at the worktree, reports a violation
# On success writes /verif/seeded/<name>/{patch.diff,demo.py,meta.json}; the
# patch is regenerated with `git diff` so that it applies to HEAD exactly.
S="$1"; PID="$2"; NAME="$3"
W=/tmp/vs/$NAME
OUT=/verif/seeded/$NAME
LOG=/tmp/vs/$NAME.log
mkdir -p /tmp/vs; rm -rf "$W"; : > "$LOG"
fail() { echo "SEED $NAME: REJECTED ($1)"; git -C /repo worktree remove --force "$W" >/dev/null 2>&1; exit 1; }
/root/tools/mkwt.sh "$W" >>"$LOG" 2>&1 || fail "worktree"
sed -e '/hydrodiy.__file__.startswith("\/tmp\/mut/d' -e '/^ *assert .*\/tmp\/mut.*hydrodiy.__file__/d' "$S/demo.py" > /tmp/vs/$NAME.demo.py
cd "$W"
PYTHONPATH=$W/src timeout 600 /venv/bin/python /tmp/vs/$NAME.demo.py >>"$LOG" 2>&1 || fail "demo fails on clean tree"
if git apply --check "$S/patch.diff" 2>/dev/null; then git apply "$S/patch.diff"; APPLY=exact
elif patch -p1 --dry-run -F3 -s < "$S/patch.diff" >/dev/null 2>&1; then patch -p1 -F3 -s < "$S/patch.diff"; APPLY=fuzz; find . -name '*.orig' -delete
else fail "patch does not apply to HEAD"; fi
git diff --quiet && fail "patch is a no-op"
if git diff --name-only | grep -q '\.[ch]$'; then /root/tools/buildext.sh "$W" >>"$LOG" 2>&1 || fail "build"; fi
PYTHONPATH=$W/src timeout 600 /venv/bin/python /tmp/vs/$NAME.demo.py > /tmp/vs/$NAME.demo.out 2>&1
DC=$?
[ $DC -eq 0 ] && fail "demo passes on changed tree"
T=$(/root/tools/runtests.sh "$W" 2>&1 | grep BASELINE)
echo "$T" | grep -q "BASELINE 183 / 183" || fail "suite: $T"
C=$(cd /verif && ./hv check $PID --repo "$W" --no-write 2>&1)
CC=$?
mkdir -p "$OUT"
git diff > "$OUT/patch.diff"
cp /tmp/vs/$NAME.demo.py "$OUT/demo.py"
HEADC=$(git -C /repo rev-parse --short HEAD)
/venv/bin/python - "$S/meta.json" "$OUT/meta.json" "$PID" "$NAME" "$APPLY" "$DC" "$CC" "$HEADC" /tmp/vs/$NAME.demo.out <<'PY' "$C"
import json, sys
src, dst, pid, name, how, dc, cc, head, demo_out, chk = sys.argv[1:11]
m = json.load(open(src))
tail = open(demo_out, errors='replace').read().strip().splitlines()[-3:]
viol = [l for l in chk.splitlines() if 'violated:' in l or l.startswith('VIOLATION')]
out = {
  'id': name, 'property': pid,
  'summary': m.get('summary'), 'needs': m.get('needs'), 'files': m.get('files'),
  'confirmed': {
     'against': 'repo HEAD ' + head + ' (scratch worktree outside /repo and /verif, removed afterwards)',
     'patch_applied': how,
     'ran': [
        'demo.py on the clean worktree -> exit 0',
        'demo.py on the changed worktree -> exit %s' % dc,
        'pinned suite on the changed worktree (pytest -n 8, run_scripts generated file ignored) -> 183/183 stable tests pass',
        './hv check %s --repo <worktree> --no-write -> exit %s' % (pid, cc),
     ],
     'demo_output_tail': tail,
  },
  'detected': int(cc) == 1,
  'detected_by': sorted({l.split('violated:')[1].split()[0] for l in viol if 'violated:' in l})[:12],
  'report_lines': [l[:400] for l in viol[:6]],
}
json.dump(out, open(dst, 'w'), indent=1)
PY
git -C /repo worktree remove --force "$W" >/dev/null 2>&1
rm -f /tmp/vs/$NAME.demo.py /tmp/vs/$NAME.demo.out
echo "SEED $NAME: KEPT apply=$APPLY demo_changed_exit=$DC check_exit=$CC"
