#!/bin/bash
# usage: trymut.sh <patch.diff> <Cxx> [more Cxx...]  -- apply a seeded change to /repo, run the checks, undo it
P="$1"; shift
cd /repo || exit 2
if ! git diff --quiet; then echo "/repo has uncommitted changes"; exit 2; fi
if git apply --check "$P" 2>/dev/null; then git apply "$P"; elif patch -p1 --dry-run -F3 -s < "$P" >/dev/null 2>&1; then patch -p1 -F3 -s < "$P"; else echo "PATCH-DOES-NOT-APPLY $P"; exit 3; fi
for pid in "$@"; do
  out=$(cd /verif && ./hv check $pid --no-write 2>&1)
  code=$?
  echo "[$pid] exit=$code $(echo "$out" | grep -c '^VIOLATION') violation(s)"
  echo "$out" | grep "violated:\|ANALYSIS-ERROR" | cut -c1-300 | head -8
done
git checkout -- . ; find . -name "*.orig" -newer "$P" -delete 2>/dev/null; git status --short | grep -v run_scripts
