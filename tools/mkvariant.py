#!/usr/bin/env python3
"""usage: mkvariant.py <patch.diff> <dir> -- scratch copy of /repo sources with the patch applied (for debugging a rule)"""
import os, shutil, subprocess, sys
VERIF = os.path.dirname(os.path.dirname(os.path.abspath(__file__)))
sys.path.insert(0, VERIF)
from hyverif import selftest
patch, dst = sys.argv[1], sys.argv[2]
shutil.rmtree(dst, ignore_errors=True)
os.makedirs(dst)
selftest.copy_sources("/repo", dst)
r = subprocess.run(["patch", "-p1", "-s", "-F3", "--no-backup-if-mismatch", "-d", dst, "-i", os.path.abspath(patch)], capture_output=True, text=True)
print(r.stdout, r.stderr, "applied" if r.returncode == 0 else "FAILED")
